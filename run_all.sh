#!/bin/sh
# usage: ./run_all.sh quick|thorough [ids...]   - runs the checks one after another, prints one summary line each
TIER=${1:-quick}; shift
IDS=${@:-C01 C02 C03 C04 C05 C06 C07 C08 C09 C10 C11 C12 C13 C14 C15 C16 C17 C18 C19 C20}
cd "$(dirname "$0")"
mkdir -p /tmp/vf-logs
for p in $IDS; do
  s=$(date +%s)
  ./check $p --tier $TIER > /tmp/vf-logs/$p.$TIER.log 2>&1
  rc=$?
  e=$(date +%s)
  echo "$p rc=$rc wall=$((e-s))s $(tail -n 1 /tmp/vf-logs/$p.$TIER.log | cut -c1-200)"
done
