#!/bin/sh
# Build the analysis interpreter: a venv layered over /venv (which has the repo's
# dependencies) plus crosshair-tool from the offline wheelhouse.  Idempotent.
set -e
HERE="$(cd "$(dirname "$0")" && pwd)"
VENV="$HERE/.venv"
if [ -x "$VENV/bin/python" ] && "$VENV/bin/python" -c "import crosshair, z3, six" 2>/dev/null; then
    exit 0
fi
rm -rf "$VENV"
/venv/bin/python -m venv "$VENV"
SP="$("$VENV/bin/python" -c 'import sysconfig; print(sysconfig.get_paths()["purelib"])')"
printf "import site; site.addsitedir('/venv/lib/python3.12/site-packages')\n" > "$SP/vf_overlay.pth"
PIP_NO_INDEX=1 "$VENV/bin/pip" install -q --no-index --find-links /opt/veriftools/wheels crosshair-tool >/dev/null
"$VENV/bin/python" -c "import crosshair, z3, six; print('vf venv ok: crosshair', crosshair.__version__, 'z3', z3.get_version_string())"
