#!/usr/bin/env python3
"""Regenerates MANIFEST.json from the table below (keeps it valid at all times)."""
import json, os
HERE = os.path.dirname(os.path.abspath(__file__))
LEVEL_NOTE = ("Trusted: CPython semantics as modelled by CrossHair 0.0.110's tracer and symbolic builtins, z3 5.1.0, the engine plugins and "
              "C-boundary stubs in vf/ext.py (each re-validated concretely on every run), the reference models in vf/ref. Bounds per claim are in the evidence file; "
              "inputs outside them are outside the claim. /repo is only executed, never trusted.")
CHECKS = {}
NA = {}
def load():
    t = json.load(open(os.path.join(HERE, "manifest_table.json")))
    return t
def main():
    t = load()
    checks = []
    for pid in sorted(t["claimed"]):
        e = t["claimed"][pid]
        checks.append({
            "property_id": pid,
            "quick_cmd": "./check %s --tier quick" % pid,
            "thorough_cmd": "./check %s --tier thorough" % pid,
            "evidence_file": "/verif/evidence/%s.json" % pid,
            "replay_cmd_template": "./check %s --replay {path}" % pid,
            "engine": "vf",
            "level_claimed": {"category": "model_checking", "text": e["text"], "design_ref": e.get("design_ref", "DESIGN.md section 3 " + pid)},
            "level_note": LEVEL_NOTE,
            "technique": e["technique"],
        })
    m = {
        "version": 1,
        "setup_cmd": "./setup.sh",
        "hooks": {"guard": "MINGUS_VERIF", "enable": "none needed: all instrumentation is applied from the harness side (CrossHair patches by function identity); /repo is imported as is", "baseline_off_cmd": "cd /repo && /venv/bin/python -m pytest -ra -q -p no:cacheprovider --timeout=900 --continue-on-collection-errors", "source_commits": [], "add_only": True},
        "engines": [{"name": "vf", "path": "/verif/vf", "serves_properties": sorted(t["claimed"]), "kind_free_text": "bounded symbolic execution of the real Python modules (CrossHair) with z3 deciding every branch; counterexamples replayed concretely on the unmodified code"}],
        "checks": checks,
        "notes": t.get("notes", ""),
        "not_applicable": [{"property_id": k, "reason": v} for k, v in sorted(t["not_applicable"].items())],
    }
    json.dump(m, open(os.path.join(HERE, "MANIFEST.json"), "w"), indent=1)
main()
