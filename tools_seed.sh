#!/bin/sh
# usage: tools_seed.sh <Cnn> <worktree> <name> [tier]  - confirm a sub-agent's seeded change and run the check against it
P=$1; WT=$2; NAME=$3; TIER=${4:-quick}; ONLY=${5:+--only $5}
OUT=/verif/seeded/$NAME
mkdir -p $OUT
cd $WT || exit 9
T=$(/venv/bin/python -m pytest -q -p no:cacheprovider --continue-on-collection-errors tests 2>&1 | tail -n 1)
echo "tests(with change): $T"
/venv/bin/python _seed/demo.py > /tmp/seed-$NAME-with.txt 2>&1; RC_WITH=$?
git diff > /tmp/seed-$NAME-cur.diff
git checkout -q -- .
/venv/bin/python _seed/demo.py > /tmp/seed-$NAME-without.txt 2>&1; RC_WITHOUT=$?
git apply /tmp/seed-$NAME-cur.diff
echo "demo rc with change=$RC_WITH without=$RC_WITHOUT"
git diff > $OUT/patch.diff
cp _seed/demo.py $OUT/demo.py
cd /verif
VF_REPO=$WT timeout ${SEED_TIMEOUT:-1500} ./check $P --tier $TIER --no-evidence $ONLY > /tmp/seed-$NAME-check.txt 2>&1; RC=$?
grep -E "VIOLATION|HARNESS|INCONCL| quick:| thorough:" /tmp/seed-$NAME-check.txt | cut -c1-220
CAUGHT=$(grep -c "^VIOLATION" /tmp/seed-$NAME-check.txt)
python3 - "$P" "$WT" "$NAME" "$T" "$RC_WITH" "$RC_WITHOUT" "$RC" "$CAUGHT" "$TIER" <<'PY'
import json, sys, os, re
P, WT, NAME, T, rw, rwo, rc, caught, tier = sys.argv[1:]
meta = {}
try:
    meta = json.load(open(os.path.join(WT, "_seed", "meta.json")))
except Exception as e:
    meta = {"note": "agent meta.json unreadable: %s" % e}
claims = sorted(set(re.findall(r"counterexample for claim (.*?) reproduced", open("/tmp/seed-%s-check.txt" % NAME).read())))
meta.update({"property": P, "confirmed": {"existing_tests_with_change": T, "demo_exit_with_change": int(rw), "demo_exit_without_change": int(rwo)},
  "check": {"command": "VF_REPO=<worktree with patch> ./check %s --tier %s --no-evidence" % (P, tier), "exit": int(rc), "violation_lines": int(caught), "claims_reporting": claims}})
json.dump(meta, open("/verif/seeded/%s/meta.json" % NAME, "w"), indent=1)
print("saved", NAME, "caught" if int(caught) else "MISSED")
PY
