"""Solver-based checking of python-mingus: CrossHair/z3 claims over the real code.

Layout:
  vf.claim    Claim objects + harness helpers (assume/pick/real/raises_)
  vf.ext      CrossHair engine plugins (int(obj), |, &, float model, C-boundary stubs)
  vf.engine   analysis of one claim with crosshair.core.analyze_calltree
  vf.worker   one claim shard per process (analysis or plain replay)
  vf.driver   per-property orchestration, replay, known findings, evidence, exit code
  vf.ref      independent reference models
  vf.claims   the harnesses, one module per property
"""
import os
import sys

REPO = os.environ.get("VF_REPO", "/repo")
VERIF = os.path.dirname(os.path.dirname(os.path.abspath(__file__)))


def use_repo():
    """Make `import mingus` resolve to the current working tree of REPO."""
    if sys.path[0] != REPO:
        sys.path.insert(0, REPO)
    m = sys.modules.get("mingus")
    if m is not None and not os.path.abspath(m.__file__).startswith(os.path.abspath(REPO) + os.sep):
        raise RuntimeError("mingus already imported from %s, wanted %s" % (m.__file__, REPO))
