"""Error-bounded abstract double (DESIGN 2.4).

EF wraps a z3 Real r.  Every + / - it performs yields exact_result + e with a fresh error term
|e| <= U = 2^-47, which is at least half an ulp of any double of magnitude < 64 (ulp(32..64) = 2^-47, half of
it 2^-48; the factor two is slack), i.e. a sound over-approximation of IEEE-754 binary64 addition under RNE in
that magnitude range (asserted as a side condition on every result).  Comparisons return CrossHair
SymbolicBools so the repo's own `if` decides the branch.  The other operand is always a concrete double, taken
at its exact rational value.  Outside CrossHair (replay) EF is never used."""
from fractions import Fraction

import z3

from crosshair.core_and_libs import NoTracing
from crosshair.libimpl.builtinslib import SymbolicBool
from crosshair.statespace import context_statespace

BOUND = 64
U = Fraction(1, 2 ** 47)


def _q(x):
    if isinstance(x, EF):
        return x.r
    if isinstance(x, (float, int)) and not isinstance(x, bool):
        f = Fraction(x)
        return z3.Q(f.numerator, f.denominator)
    raise TypeError("EF arithmetic with %s" % type(x).__name__)


class EF(object):
    __slots__ = ("r",)

    def __init__(self, r):
        self.r = r

    @staticmethod
    def fresh(name):
        with NoTracing():
            return EF(z3.Real(name + context_statespace().uniq()))

    def _round(self, exact):
        with NoTracing():
            sp = context_statespace()
            e = z3.Real("rnd" + sp.uniq())
            u = z3.Q(U.numerator, U.denominator)
            sp.add(z3.And(e >= -u, e <= u))
            res = exact + e
            sp.add(z3.And(res <= BOUND, res >= -BOUND))
            return EF(res)

    def __add__(self, o):
        with NoTracing():
            ex = self.r + _q(o)
        return self._round(ex)

    __radd__ = __add__

    def __sub__(self, o):
        with NoTracing():
            ex = self.r - _q(o)
        return self._round(ex)

    def __rsub__(self, o):
        with NoTracing():
            ex = _q(o) - self.r
        return self._round(ex)

    def _cmp(self, o, op):
        with NoTracing():
            return SymbolicBool(op(self.r, _q(o)))

    def __le__(self, o):
        return self._cmp(o, lambda a, b: a <= b)

    def __lt__(self, o):
        return self._cmp(o, lambda a, b: a < b)

    def __ge__(self, o):
        return self._cmp(o, lambda a, b: a >= b)

    def __gt__(self, o):
        return self._cmp(o, lambda a, b: a > b)

    def __eq__(self, o):
        return self._cmp(o, lambda a, b: a == b)

    def __ne__(self, o):
        return self._cmp(o, lambda a, b: a != b)

    __hash__ = None


def within(ef, center_q, radius_q):
    """SymbolicBool: |ef - center| <= radius (z3 Real terms)"""
    with NoTracing():
        return SymbolicBool(z3.And(ef.r - center_q <= radius_q, center_q - ef.r <= radius_q))


def constrain(cond):
    with NoTracing():
        context_statespace().add(cond)


def validate(n=3000):
    """concrete soundness check of the error envelope: for random doubles a, b with |a+b| < 64 the IEEE sum
    differs from the exact sum by at most U"""
    import random

    rnd = random.Random(11)
    for _ in range(n):
        a = rnd.uniform(-30, 30)
        b = 1.0 / rnd.choice([1, 2, 3, 5, 7, 20, 24, 28, 96, 128, 1.5, 10.666666666666666])
        for s in (a + b, a - b):
            ex = Fraction(a) + Fraction(b) if s == a + b else Fraction(a) - Fraction(b)
            assert abs(Fraction(s) - ex) <= U
    return n
