"""Claim objects and the helpers harness bodies use.

A claim is an ordinary typed Python function returning bool; its arguments are
made symbolic by CrossHair, its preconditions restrict them to the stated bound,
its body calls the real /repo code and compares with a reference model.  The same
function is executed with concrete arguments by the replayer (no CrossHair).
"""
import inspect
import typing


class Vacuous(Exception):
    """raised by assume() outside CrossHair (replay): the input is outside the claim"""


_MODE = {"symbolic": False}


def symbolic_mode():
    return _MODE["symbolic"]


def assume(cond):
    """Restrict the claim to inputs satisfying cond (placed before the code it constrains)."""
    if cond:
        return
    if _MODE["symbolic"]:
        from crosshair.util import IgnoreAttempt

        raise IgnoreAttempt("assume")
    raise Vacuous()


def unsupported(why=""):
    """the harness' stand-in object cannot follow what the code did: this path is inconclusive (never a
    counterexample, never a pass)"""
    if _MODE["symbolic"]:
        from crosshair.util import CrosshairUnsupported

        raise CrosshairUnsupported(why)
    raise Vacuous()


def real(x):
    """Concretise x (solver picks, one path per value); identity when concrete."""
    if _MODE["symbolic"]:
        from crosshair.core import realize

        return realize(x)
    return x


def untraced(fn, *a, **kw):
    """run harness bookkeeping (never repo code) on concrete data without the symbolic tracer"""
    if _MODE["symbolic"]:
        from crosshair.core_and_libs import NoTracing

        with NoTracing():
            return fn(*a, **kw)
    return fn(*a, **kw)


def deep_real(x):
    if _MODE["symbolic"]:
        from crosshair.core import deep_realize

        return deep_realize(x)
    return x


def enum(i, lo, hi):
    """Concrete value of the (symbolic) int i, lo <= i < hi, found by bisection: every comparison is a
    solver-decided fork, the leaves partition [lo, hi) with no repeats (CrossHair's own realize() walks a
    linear chain of != constraints and revisits values)."""
    assume(lo <= i)
    assume(i < hi)
    while hi - lo > 1:
        mid = (lo + hi) // 2
        if i < mid:
            hi = mid
        else:
            lo = mid
    return lo


def fork(b):
    """Concrete value of a (symbolic) bool."""
    if b:
        return True
    return False


def pick(table, i):
    """table[i] with the index made concrete first (a table dimension, not arithmetic)."""
    return table[enum(i, 0, len(table))]


def raises_(exc, fn, *a, **kw):
    """True iff fn(*a) raises exc (other exceptions propagate -> violation)."""
    try:
        fn(*a, **kw)
    except exc:
        return True
    return False


def no_raise(fn, *a, **kw):
    fn(*a, **kw)
    return True


def warm_cold(prior, query):
    """hidden-state independence: the value of query() after prior() ran must equal its value in the initial
    (cold) state of every piece of module/class state the harness knows (vf.ext.discover_state)."""
    from vf import ext

    ext.ensure_state()
    ext.reset_state()
    cold = query()
    ext.reset_state()
    prior()
    warm = query()
    ext.reset_state()
    return warm == cold


class Claim(object):
    def __init__(
        self,
        name,
        fn,
        pre=(),
        raises=(),
        params=None,
        timeout=120,
        per_path=20,
        bounds="",
        real_floats=False,
        inductive=False,
        reach=None,
        group=None,
        exact_int_div=False,
        probe_only=False,
    ):
        self.name = name  # unique within the property+tier
        self.fn = fn
        self.pre = list(pre)  # callables taking (a subset of) the claim's arguments by name
        self.raises = tuple(raises)
        self.params = dict(params or {})  # shard parameters, installed as fn.__globals__['P']
        self.timeout = timeout  # CPU seconds for the analysis of this shard
        self.per_path = per_path
        self.bounds = bounds
        self.real_floats = real_floats
        self.inductive = inductive
        self.reach = reach
        self.group = group or fn.__name__
        self.exact_int_div = exact_int_div
        self.probe_only = probe_only

    def sig(self):
        sig = inspect.signature(self.fn)
        hints = typing.get_type_hints(self.fn)
        ps = [p.replace(annotation=hints.get(n, p.annotation)) for n, p in sig.parameters.items()]
        return sig.replace(parameters=ps, return_annotation=hints.get("return", sig.return_annotation))

    def install_params(self):
        self.fn.__globals__["P"] = self.params

    def check_pre(self, kwargs):
        for p in self.pre:
            names = [n for n, prm in inspect.signature(p).parameters.items() if prm.default is inspect.Parameter.empty]
            if not p(**{k: kwargs[k] for k in names}):
                return False
        return True


def shard_name(base, params):
    if not params:
        return base
    return base + "[" + ",".join("%s=%s" % (k, params[k]) for k in sorted(params)) + "]"
