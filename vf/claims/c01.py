"""C01  Note names <-> pitch classes (mingus/core/notes.py)."""
from vf.claim import Claim, assume, raises_, real
from vf.ref.theory import LETTERS, NAT, canonical, is_name, net, pc, spelled, unmixed

from mingus.core import notes
from mingus.core.mt_exceptions import FormatError, NoteFormatError, RangeError

P = {}
ASSUMPTIONS = ["reference: pitch class = (natural pc of letter + sharps - flats) mod 12 (vf/ref/theory.py)"]
OUTSIDE = ["accidental strings longer than the stated K", "the empty string (property says non-empty)", "non-str arguments"]


def c01_note_to_int(s: str) -> bool:
    return notes.note_to_int(s) == pc(s)


def c01_int_to_note(n: int, flat: bool) -> bool:
    style = "b" if flat else "#"
    if 0 <= n <= 11:
        r = notes.int_to_note(n, style)
        ok_alpha = len(r) <= 2 and r[0] in LETTERS and (len(r) == 1 or r[1] == style)
        return ok_alpha and notes.note_to_int(r) == n and pc(r) == n
    return raises_(RangeError, notes.int_to_note, n, style)


def c01_int_to_note_style(n: int, style: str) -> bool:
    if style == "#" or style == "b":
        return pc(notes.int_to_note(n, style)) == n
    return raises_(FormatError, notes.int_to_note, n, style)


def c01_enharmonic(a: str, b: str) -> bool:
    return notes.is_enharmonic(a, b) == (pc(a) == pc(b))


def c01_augment(s: str) -> bool:
    r = notes.augment(s)
    return is_name(r) and r[0] == s[0] and pc(r) == (pc(s) + 1) % 12 and notes.note_to_int(r) == (notes.note_to_int(s) + 1) % 12


def c01_diminish(s: str) -> bool:
    r = notes.diminish(s)
    return is_name(r) and r[0] == s[0] and pc(r) == (pc(s) - 1) % 12 and notes.note_to_int(r) == (notes.note_to_int(s) - 1) % 12


def c01_remove_redundant(s: str) -> bool:
    r = notes.remove_redundant_accidentals(s)
    return r == canonical(s[0], net(s))


def c01_reduce(s: str) -> bool:
    r = notes.reduce_accidentals(s)
    n = net(s)
    if not (is_name(r) and len(r) <= 2 and pc(r) == pc(s)):
        return False
    if len(r) == 2:
        if r[1] == "#" and not n > 0:
            return False
        if r[1] == "b" and not n < 0:
            return False
    return True


def c01_validity(s: str) -> bool:
    """every non-empty string: predicate is exact; invalid names are rejected with NoteFormatError"""
    v = notes.is_valid_note(s)
    if v != is_name(s):
        return False
    if v:
        notes.note_to_int(s)
        notes.reduce_accidentals(s)
        return True
    return raises_(NoteFormatError, notes.note_to_int, s) and raises_(NoteFormatError, notes.reduce_accidentals, s)


def claims(tier):
    q = tier == "quick"
    K = 4 if q else 7
    cl = []
    cl.append(Claim("note_to_int", c01_note_to_int, pre=[lambda s: spelled(s, K)], timeout=300 if q else 2400, bounds="s = letter + {#,b}^<=%d (every ordering)" % K))
    cl.append(Claim("int_to_note", c01_int_to_note, pre=[lambda n: -(10 ** 9) <= n <= 10 ** 9], timeout=120, bounds="n: every integer with |n| <= 10^9 (the error message renders n, one path per digit count); style in {#, b}"))
    cl.append(Claim("int_to_note_style", c01_int_to_note_style, pre=[lambda n, style: 0 <= n <= 11 and len(style) <= 2], timeout=120, bounds="n in 0..11; style: every unicode string of length <= 2"))
    Ke = 2 if q else 3
    for L in LETTERS:
        cl.append(Claim("enharmonic[a0=%s]" % L, c01_enharmonic, params={"L": L}, pre=[lambda a, b: a[:1] == P["L"] and spelled(a, Ke) and spelled(b, Ke)], timeout=300 if q else 1200, bounds="a = %s + {#,b}^<=%d, b = letter + {#,b}^<=%d" % (L, Ke, Ke)))
    cl.append(Claim("augment", c01_augment, pre=[lambda s: spelled(s, K)], timeout=300 if q else 2400, bounds="s = letter + {#,b}^<=%d" % K))
    cl.append(Claim("diminish", c01_diminish, pre=[lambda s: spelled(s, K)], timeout=300 if q else 2400, bounds="s = letter + {#,b}^<=%d" % K))
    Kr = 4 if q else 6
    cl.append(Claim("remove_redundant", c01_remove_redundant, pre=[lambda s: spelled(s, Kr)], timeout=300 if q else 2400, bounds="s = letter + {#,b}^<=%d" % Kr))
    cl.append(Claim("reduce", c01_reduce, pre=[lambda s: spelled(s, Kr)], timeout=300 if q else 2400, bounds="s = letter + {#,b}^<=%d" % Kr))
    L = 3 if q else 4
    cl.append(Claim("validity", c01_validity, pre=[lambda s: 1 <= len(s) <= L], timeout=600 if q else 2400, bounds="s: every unicode string, 1 <= len <= %d" % L))
    return cl
