"""C02  Named interval constructors, measure, consonance (mingus/core/intervals.py)."""
from vf.claim import Claim
from vf.ref.theory import INTERVALS, LETTERS, is_name, letter_up, pc, spelled, unmixed

from mingus.core import intervals

P = {}
ASSUMPTIONS = ["reference: table of the 17 named intervals as (letter steps, semitones) in vf/ref/theory.py, written from the property text"]
OUTSIDE = ["accidental strings longer than the stated K", "get_interval / interval() in a key (not in the property; diatonic steps are C04)"]


def c02_ctor(s: str) -> bool:
    name = P["ctor"]
    steps, semis = INTERVALS[name]
    r = getattr(intervals, name)(s)
    return is_name(r) and r[0] == letter_up(s[0], steps) and pc(r) == (pc(s) + semis) % 12 and unmixed(r) and len(r) - 1 <= 6


def c02_measure(a: str, b: str) -> bool:
    m = intervals.measure(a, b)
    return m == (pc(b) - pc(a)) % 12


def c02_consonance(a: str, b: str, f: bool) -> bool:
    m = (pc(b) - pc(a)) % 12
    perfect = m in (0, 7) or (f and m == 5)
    imperfect = m in (3, 4, 8, 9)
    ok = bool(intervals.is_perfect_consonant(a, b, f)) == perfect
    ok = ok and bool(intervals.is_imperfect_consonant(a, b)) == imperfect
    ok = ok and bool(intervals.is_consonant(a, b, f)) == (perfect or imperfect)
    # is_dissonant(include_fourths=g): fourths count as dissonant iff g
    perfect_nf = m in (0, 7) or ((not f) and m == 5)
    ok = ok and bool(intervals.is_dissonant(a, b, f)) == (not (perfect_nf or imperfect))
    return ok


def c02_consonance_defaults(a: str, b: str) -> bool:
    m = (pc(b) - pc(a)) % 12
    return (
        bool(intervals.is_perfect_consonant(a, b)) == (m in (0, 5, 7))
        and bool(intervals.is_consonant(a, b)) == (m in (0, 5, 7, 3, 4, 8, 9))
        and bool(intervals.is_dissonant(a, b)) == (m not in (0, 5, 7, 3, 4, 8, 9))
    )


def claims(tier):
    q = tier == "quick"
    K = 2 if q else 4
    cl = []
    for name in sorted(INTERVALS):
        cl.append(Claim("ctor[%s]" % name, c02_ctor, params={"ctor": name}, pre=[lambda s: spelled(s, K)], group="c02_ctor", timeout=300 if q else 2400, bounds="s = letter + {#,b}^<=%d (every ordering)" % K))
    if q:
        # quick tier: the long-accidental region (where results wrap from sharps to flats) with uniform accidentals
        for name in sorted(INTERVALS):
            cl.append(Claim("ctor_deep[%s]" % name, c02_ctor, params={"ctor": name}, group="c02_ctor", pre=[lambda s: 4 <= len(s) - 1 <= 7 and spelled(s, 7) and (s[1:] == "#" * (len(s) - 1) or s[1:] == "b" * (len(s) - 1))], timeout=300, bounds="s = letter + #^k or b^k, 4 <= k <= 7"))
    Km = 2 if q else 3
    for L in LETTERS:
        cl.append(Claim("measure[a0=%s]" % L, c02_measure, params={"L": L, "K": Km}, pre=[lambda a, b: a[:1] == P["L"] and spelled(a, P["K"]) and spelled(b, P["K"])], timeout=300 if q else 1800, bounds="a = %s + {#,b}^<=%d, b = letter + {#,b}^<=%d" % (L, Km, Km)))
    Kc = 1 if q else 2
    for L in LETTERS:
        cl.append(Claim("consonance[a0=%s]" % L, c02_consonance, params={"L": L, "K": Kc}, pre=[lambda a, b: a[:1] == P["L"] and spelled(a, P["K"]) and spelled(b, P["K"])], timeout=300 if q else 1800, bounds="a = %s + {#,b}^<=%d, b = letter + {#,b}^<=%d, include_fourths symbolic bool" % (L, Kc, Kc)))
    cl.append(Claim("consonance_defaults", c02_consonance_defaults, params={"K": 1}, pre=[lambda a, b: spelled(a, 1) and spelled(b, 1)], timeout=300, bounds="a, b = letter + {#,b}^<=1; default flags"))
    return cl
