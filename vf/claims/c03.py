"""C03  intervals.determine <-> intervals.from_shorthand; invert."""
from typing import List

from vf.claim import Claim, assume, fork, pick, real, warm_cold
from vf.ref.theory import LETTERS, MAJOR_SIZE, NAT, is_name, letter_dist, letter_up, net, pc, spelled, unmixed

from mingus.core import intervals

P = {}
ASSUMPTIONS = [
    "reference: ascending distance along the spanned letters D = (nat(b0)-nat(a0)) mod 12 + net(b) - net(a); number = letter distance + 1; quality from D - major size",
    "exact reproduction of the second note (and up-then-down identity) is asserted for names that do not mix sharps and flats: a mixed spelling such as 'E#b' has no shorthand that could restore its accidental order",
]
OUTSIDE = ["pairs whose distance D along the letters is outside 0..11", "more than 2 accidentals in a shorthand prefix", "empty interval strings"]
NUMBER = ["unison", "second", "third", "fourth", "fifth", "sixth", "seventh"]


def _D(a, b):
    return (NAT[b[0]] - NAT[a[0]]) % 12 + net(b) - net(a)


def c03_determine(a: str, b: str) -> bool:
    D = _D(a, b)
    assume(0 <= D <= 11)
    d = letter_dist(a[0], b[0])
    off = D - MAJOR_SIZE[d]
    if off == 0:
        qual = "perfect" if d in (3, 4) else "major"
    elif off == -1:
        qual = "minor"
    elif off < -1:
        qual = "diminished"
    else:
        qual = "augmented"
    long = intervals.determine(a, b)
    if long != qual + " " + NUMBER[d]:
        return False
    sh = intervals.determine(a, b, True)
    exp = ("#" * off if off > 0 else "b" * (-off)) + str(d + 1)
    if sh != exp:
        return False
    if unmixed(b):
        return intervals.from_shorthand(a, sh) == b
    r = intervals.from_shorthand(a, sh)
    return r[0] == b[0] and pc(r) == pc(b)


def c03_from_shorthand(n: str, acc: str) -> bool:
    deg = P["deg"]
    sh = acc + str(deg)
    size = MAJOR_SIZE[deg - 1] + net("x" + acc)
    up = intervals.from_shorthand(n, sh, True)
    if not (is_name(up) and up[0] == letter_up(n[0], deg - 1) and pc(up) == (pc(n) + size) % 12):
        return False
    down = intervals.from_shorthand(n, sh, False)
    if not (is_name(down) and down[0] == letter_up(n[0], -(deg - 1)) and pc(down) == (pc(n) - size) % 12):
        return False
    back = intervals.from_shorthand(up, sh, False)
    if unmixed(n):
        return back == n
    return back[0] == n[0] and pc(back) == pc(n)


PRIOR = [("C", "#4", False), ("C#", "4", False), ("C", "b3", False), ("Cb", "5", True), ("F#", "b7", False), ("B", "2", True), ("E", "#1", False), ("Gb", "6", False)]


def c03_history(pi: int, n: str, acc: str, up: bool) -> bool:
    """an interval application gives the same note whatever was asked before (its result in the initial state of all
    module-level state); prior call from a list of representative ones, the query symbolic"""
    deg = P["deg"]
    pn, ps, pu = pick(PRIOR, pi)
    sh = acc + str(deg)
    up = fork(up)
    return warm_cold(lambda: intervals.from_shorthand(pn, ps, pu), lambda: intervals.from_shorthand(n, sh, up))


def c03_default_up(n: str) -> bool:
    sh = P["sh"]
    return intervals.from_shorthand(n, sh) == intervals.from_shorthand(n, sh, True)


def c03_invert(l: List[int]) -> bool:
    before = list(l)
    r = intervals.invert(l)
    return r == before[::-1] and l == before and r is not l


def claims(tier):
    q = tier == "quick"
    cl = []
    K = 1 if q else 2
    for L in LETTERS:
        cl.append(Claim("determine[a0=%s]" % L, c03_determine, params={"L": L, "K": K}, group="c03_determine", pre=[lambda a, b: a[:1] == P["L"] and spelled(a, P["K"]) and spelled(b, P["K"])], timeout=400 if q else 2400, bounds="a = %s + {#,b}^<=%d, b = letter + {#,b}^<=%d, restricted to 0 <= distance along letters <= 11; long and short form" % (L, K, K)))
    for L in LETTERS:
        cl.append(Claim("determine_extreme[a0=%s]" % L, c03_determine, params={"L": L}, group="c03_determine", pre=[lambda a, b: a[:1] == P["L"] and len(a) == 3 and len(b) == 3 and a[1] == a[2] and b[1] == b[2] and a[1] != b[1] and spelled(a, 2) and spelled(b, 2)], timeout=400 if q else 2400, bounds="a = %s## or %sbb against b = letter + the opposite double accidental (the widest and narrowest intervals of every number)" % (L, L)))
    Kn = 1 if q else 2
    for deg in range(1, 8):
        cl.append(Claim("history[deg=%d]" % deg, c03_history, params={"deg": deg}, group="c03_history", pre=[lambda pi, n, acc: 0 <= pi < (3 if q else len(PRIOR)) and spelled(n, 1) and spelled("C" + acc, 1)], timeout=900 if q else 3000, bounds="prior: %d representative applications; query: n = letter + {#,b}^<=1, shorthand {#,b}^<=1 + '%d', up and down (symbolic): warm result == result in the initial state" % (3 if q else len(PRIOR), deg)))
        cl.append(Claim("from_shorthand[deg=%d]" % deg, c03_from_shorthand, params={"deg": deg, "K": Kn}, pre=[lambda n, acc: spelled(n, P["K"]) and spelled("C" + acc, 2)], timeout=400 if q else 2400, bounds="n = letter + {#,b}^<=%d; shorthand = {#,b}^<=2 + '%d'; up, down, up-then-down" % (Kn, deg)))
    cl.append(Claim("from_shorthand_default_up", c03_default_up, params={"sh": "b3"}, pre=[lambda n: spelled(n, 1)], timeout=120, bounds="n = letter + {#,b}^<=1; default direction is up"))
    cl.append(Claim("invert", c03_invert, pre=[lambda l: len(l) <= (4 if q else 6)], timeout=120, bounds="l: every list of ints, len <= %d" % (4 if q else 6)))
    return cl
