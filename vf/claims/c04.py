"""C04  Keys: signatures, key notes, relatives, diatonic steps (mingus/core/keys.py, intervals.py)."""
from vf.claim import Claim, assume, pick, raises_, real
from vf.ref import theory as T
from vf.ref.theory import LETTERS, is_name, net, pc, spelled

from mingus.core import intervals, keys
from mingus.core.mt_exceptions import NoteFormatError, RangeError

P = {}
ASSUMPTIONS = [
    "reference: the 30 keys are the 15 major keys Cb..C# and their relative minors (vf/ref/theory.py); key notes are built from the step pattern and letter order, not read from the repo",
    "the key index is a finite table dimension: it is realised by the solver (one path per key, exhaustion certified), no symbolic compression",
]
OUTSIDE = ["candidate key strings longer than the stated length", "notes with more accidentals than the stated K in the diatonic-step claims"]
KEYS = T.all_keys()
FLAT_ORDER = ["B", "E", "A", "D", "G", "C", "F"]
SHARP_ORDER = ["F", "C", "G", "D", "A", "E", "B"]


def c04_key_table(ki: int) -> bool:
    k = pick(KEYS, ki)
    minor = T.key_is_minor(k)
    tonic = T.key_tonic(k)
    ns = keys.get_notes(k)
    exp = T.key_notes(tonic, minor)
    if list(ns) != exp:
        return False
    # stated structure, checked directly as well
    if ns[0] != tonic or [n[0] for n in ns] != [T.letter_up(tonic[0], i) for i in range(7)]:
        return False
    steps = [(pc(ns[(i + 1) % 7]) - pc(ns[i])) % 12 for i in range(7)]
    if steps != (T.MINOR_STEPS if minor else T.MAJOR_STEPS):
        return False
    sig = keys.get_key_signature(k)
    acc = keys.get_key_signature_accidentals(k)
    if sorted(n for n in ns if len(n) > 1) != sorted(acc):
        return False
    if len(acc) != abs(sig) or sig != sum(net(n) for n in ns):
        return False
    order = SHARP_ORDER if sig > 0 else FLAT_ORDER
    if list(acc) != [order[i] + ("#" if sig > 0 else "b") for i in range(abs(sig))]:
        return False
    pair = keys.get_key(sig)
    if k not in pair or pair[1 if minor else 0] != k:
        return False
    if not keys.is_valid_key(k):
        return False
    if minor:
        M = keys.relative_major(k)
        if keys.relative_minor(M) != k or sorted(keys.get_notes(M)) != sorted(ns) or (pc(tonic) - pc(M)) % 12 != 9:
            return False
        # the relative major asked after the minor key (and the minor key again after that)
        if list(keys.get_notes(M)) != T.key_notes(M, False) or list(keys.get_notes(k)) != exp:
            return False
        if not raises_(NoteFormatError, keys.relative_minor, k):
            return False
    else:
        m = keys.relative_minor(k)
        if keys.relative_major(m) != k or sorted(keys.get_notes(m)) != sorted(ns) or (pc(T.key_tonic(m)) - pc(tonic)) % 12 != 9:
            return False
        if list(keys.get_notes(m)) != T.key_notes(T.key_tonic(m), True) or list(keys.get_notes(k)) != exp:
            return False
        if not raises_(NoteFormatError, keys.relative_major, k):
            return False
    K = keys.Key(k)
    acc_word = {"": "", "#": "sharp ", "b": "flat "}[k[1:]]
    if K.key != k or K.mode != ("minor" if minor else "major") or K.signature != sig or K.name != "%s %s%s" % (tonic[0], acc_word, K.mode):
        return False
    # second query (warm memo table) gives the same answer
    return list(keys.get_notes(k)) == exp and keys.get_key_signature(k) == sig


def c04_get_key(n: int) -> bool:
    if -7 <= n <= 7:
        maj, mi = keys.get_key(n)
        return maj == T.MAJOR_KEYS[n + 7] and mi == T.MINOR_KEYS[n + 7] and keys.get_key_signature(maj) == n and keys.get_key_signature(mi) == n
    return raises_(RangeError, keys.get_key, n)


def c04_candidates(s: str) -> bool:
    valid = s in KEYS
    if bool(keys.is_valid_key(s)) != valid:
        return False
    if valid:
        return True
    return (
        raises_(NoteFormatError, keys.get_key_signature, s)
        and raises_(NoteFormatError, keys.get_notes, s)
        and raises_(NoteFormatError, keys.get_key_signature_accidentals, s)
        and raises_(NoteFormatError, keys.relative_major, s)
        and raises_(NoteFormatError, keys.relative_minor, s)
        and raises_(NoteFormatError, keys.Key, s)
    )


STEP_FUNCS = ["second", "third", "fourth", "fifth", "sixth", "seventh"]


def c04_diatonic(note: str, ki: int) -> bool:
    k = pick(KEYS, ki)
    step = P["step"]
    kn = T.key_notes(T.key_tonic(k), T.key_is_minor(k))
    want_letter = T.letter_up(note[0], step)
    exp = [x for x in kn if x[0] == want_letter][0]
    r = getattr(intervals, STEP_FUNCS[step - 1])(note, k)
    return r == exp


def c04_unison(note: str) -> bool:
    return intervals.unison(note) == note[0] or intervals.unison(note) == note


def claims(tier):
    q = tier == "quick"
    cl = []
    cl.append(Claim("key_table", c04_key_table, pre=[lambda ki: 0 <= ki < 30], timeout=600, bounds="all 30 keys (index realised)"))
    cl.append(Claim("get_key", c04_get_key, timeout=120, bounds="n: every integer (unbounded)"))
    L = 2 if q else 3
    cl.append(Claim("candidates", c04_candidates, pre=[lambda s: 1 <= len(s) <= L], timeout=600 if q else 2400, bounds="s: every unicode string with 1 <= len <= %d" % L))
    K = 1 if q else 2
    for step in range(1, 7):
        for lo, hi in ((0, 15), (15, 30)):
            cl.append(Claim("diatonic[step=%d,keys=%d-%d]" % (step, lo, hi - 1), c04_diatonic, params={"step": step, "K": K, "lo": lo, "hi": hi}, pre=[lambda note, ki: P["lo"] <= ki < P["hi"] and spelled(note, P["K"])], timeout=600 if q else 2400, bounds="note = letter + {#,b}^<=%d; key index %d..%d (realised); %s" % (K, lo, hi - 1, STEP_FUNCS[step - 1])))
    return cl
