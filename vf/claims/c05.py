"""C05  Scales realise their step pattern; recognition is exact (mingus/core/scales.py)."""
from vf.claim import Claim, assume, enum, fork, pick, raises_, real
from vf.ref import scales as RS
from vf.ref import theory as T
from vf.ref.theory import pc, spelled

from mingus.core import scales
from mingus.core.mt_exceptions import FormatError, NoteFormatError, RangeError

P = {}
ASSUMPTIONS = [
    "reference: the 17 step patterns of vf/ref/scales.py (from the property text); heptatonic scales are rebuilt on consecutive letters",
    "Chromatic: ascending/descending are compared as pitch-class step patterns (the class deliberately spells the descent with flats); every other class must return the exact reverse list (melodic minor and minor Neapolitan: the stated descending forms)",
    "recognition answers are compared as sorted lists (the property fixes the set of names, not their order)",
]
OUTSIDE = ["tonics with more accidentals than the stated K", "octave counts above the stated bound", "degree numbers above the scale length (IndexError, not specified)", "recognition inputs outside the listed pool"]


def _steps(lst):
    return [(pc(lst[i + 1]) - pc(lst[i])) % 12 for i in range(len(lst) - 1)]


def _check_scale(s, cls, tonic, n):
    pat = RS.PATTERNS[cls]
    asc = s.ascending()
    if _steps(asc) != pat * n or asc[0] != tonic or asc[-1] != tonic or len(asc) != len(pat) * n + 1:
        return False
    if len(pat) == 7:
        if [x[0] for x in asc] != [T.letter_up(tonic[0], i % 7) for i in range(7 * n + 1)]:
            return False
        if asc[:7] != RS.heptatonic(tonic, pat):
            return False
    desc = s.descending()
    if cls in RS.DESC_PATTERNS:
        dp = RS.DESC_PATTERNS[cls]
        want = [(-x) % 12 for x in dp] * n
        if _steps(desc) != want or desc[0] != tonic or desc[-1] != tonic:
            return False
        if [x[0] for x in desc] != [T.letter_up(tonic[0], (-i) % 7) for i in range(7 * n + 1)]:
            return False
    elif cls == "Chromatic":
        if _steps(desc) != [11] * (12 * n) or desc[0] != tonic or desc[-1] != tonic:
            return False
    else:
        if desc != asc[::-1]:
            return False
    if len(s) != len(asc):
        return False
    return True


def _check_degrees(s, d):
    asc = s.ascending()
    desc = s.descending()
    if d < 1:
        return raises_(RangeError, s.degree, d, "a") and raises_(RangeError, s.degree, d, "d") and raises_(RangeError, s.degree, d)
    return s.degree(d, "a") == asc[:-1][d - 1] and s.degree(d) == asc[:-1][d - 1] and s.degree(d, "d") == desc[::-1][:-1][d - 1]


def c05_any_tonic(tonic: str, n: int) -> bool:
    cls = P["cls"]
    n = enum(n, 1, 4)
    s = getattr(scales, cls)(tonic, n)
    if not _check_scale(s, cls, tonic, n):
        return False
    same = getattr(scales, cls)(tonic, n)
    return s == same and not (s != same)


def c05_diatonic(tonic: str, n: int) -> bool:
    semis = P["semis"]
    n = enum(n, 1, 4)
    # the same scale with another octave count was built and read first: the notes do not depend on that
    scales.Diatonic(tonic, semis, 1 if n > 1 else 2).ascending()
    s = scales.Diatonic(tonic, semis, n)
    pat = [1 if i in semis else 2 for i in range(1, 7)]
    pat.append(12 - sum(pat))
    asc = s.ascending()
    return _steps(asc) == pat * n and asc[0] == tonic and asc[-1] == tonic and [x[0] for x in asc] == [T.letter_up(tonic[0], i % 7) for i in range(7 * n + 1)] and s.descending() == asc[::-1] and len(s) == 7 * n + 1


def _tonics(cls):
    if cls == "Chromatic":
        return T.all_keys()
    if cls in RS.MAJOR_FAMILY:
        return T.MAJOR_KEYS
    if cls in RS.MINOR_FAMILY:
        return [T.key_tonic(k) for k in T.MINOR_KEYS]
    return ["C", "F#", "Bb", "E#", "Fb"]


def c05_keyed(ki: int, n: int) -> bool:
    cls = P["cls"]
    n = enum(n, 1, 4)
    pool = _tonics(cls)
    key = pick(pool, ki)
    tonic = T.key_tonic(key)
    s = getattr(scales, cls)(key, n)
    other = getattr(scales, cls)(pick(pool, (ki + 1) % len(pool)), n)
    if not _check_scale(s, cls, tonic, n):
        return False
    return not (s == other) and (s != other)


def c05_degrees(ki: int, n: int, d: int) -> bool:
    cls = P["cls"]
    n = enum(n, 1, 4)
    key = pick(_tonics(cls), ki)
    s = getattr(scales, cls)(key, n)
    assume(d <= len(RS.PATTERNS[cls]) * n)
    return _check_degrees(s, d)


ALLCLS = sorted(RS.PATTERNS)


def c05_equality(ci: int, cj: int, ti: int, n: int) -> bool:
    """== / != / len follow the note lists, across classes (e.g. melodic minor vs Bachian share the ascent only)"""
    a = pick(ALLCLS, ci)
    b = pick(ALLCLS, cj)
    n = enum(n, 1, 3)
    ka = pick(["C", "A", "Eb"], ti)
    def mk(cls, octs):
        if cls == "Chromatic":
            return scales.Chromatic(ka, octs)
        return getattr(scales, cls)(ka, octs)
    x = mk(a, n)
    y = mk(b, n)
    same = x.ascending() == y.ascending() and x.descending() == y.descending()
    if (x == y) != same or (x != y) == same:
        return False
    z = mk(b, 3 - n)
    same2 = x.ascending() == z.ascending() and x.descending() == z.descending()
    return (x == z) == same2 and len(x) == len(x.ascending()) and len(z) == len(z.ascending())


def c05_bad_direction(x: str) -> bool:
    s = scales.Major("C")
    if x == "a" or x == "d":
        return True
    return raises_(FormatError, s.degree, 1, x)


def c05_lowercase_tonic(ki: int) -> bool:
    cls = pick(RS.ANY_TONIC, ki)
    return raises_(NoteFormatError, getattr(scales, cls), "c")


NAMES21 = [l + a for l in T.LETTERS for a in ("", "#", "b")]


def _inputs():
    inp = [[x] for x in NAMES21]
    for i in range(15):
        mt = T.MAJOR_KEYS[i]
        nt = T.key_tonic(T.MINOR_KEYS[i])
        for cls in RS.MAJOR_FAMILY:
            inp.append(RS.heptatonic(mt, RS.PATTERNS[cls]))
        for cls in RS.MINOR_FAMILY:
            inp.append(RS.heptatonic(nt, RS.PATTERNS[cls]))
    inp.append([])
    inp.append(["C", "E", "G"])
    inp.append(["C", "C#"])
    inp.append(["E#"])
    inp.append(["A", "C", "E", "G#"])
    inp.append(["A", "F#", "G"])
    inp.append(["A", "Bb", "G"])
    return inp


INPUTS = _inputs()
PAIRS = [[a, b] for i, a in enumerate(NAMES21) for b in NAMES21[i + 1 :]]


def c05_recognise(i: int) -> bool:
    pool = PAIRS if P.get("pairs") else INPUTS
    notes = pick(pool, i)
    got = scales.determine(list(notes))
    return sorted(got) == RS.recognise(notes)


def claims(tier):
    q = tier == "quick"
    cl = []
    K = 1 if q else 2
    N = 2 if q else 3
    for cls in RS.ANY_TONIC:
        cl.append(Claim("scale[%s]" % cls, c05_any_tonic, params={"cls": cls, "K": K, "N": N}, pre=[lambda tonic, n: spelled(tonic, P["K"]) and 1 <= n <= P["N"]], timeout=900 if q else 3000, bounds="tonic = letter + {#,b}^<=%d (symbolic); octaves 1..%d (realised)" % (K, N)))
    for semis in ((3, 7), (2, 6), (1, 5), (1, 4), (2, 5)):
        cl.append(Claim("diatonic[%d,%d]" % semis, c05_diatonic, params={"semis": semis, "K": K, "N": N}, pre=[lambda tonic, n: spelled(tonic, P["K"]) and 1 <= n <= P["N"]], timeout=600 if q else 2400, bounds="Diatonic(tonic, %r): tonic = letter + {#,b}^<=%d; octaves 1..%d" % (semis, K, N)))
    for cls in RS.MAJOR_FAMILY + RS.MINOR_FAMILY + ["Chromatic"]:
        nk = 30 if cls == "Chromatic" else 15
        cl.append(Claim("scale[%s]" % cls, c05_keyed, params={"cls": cls, "nk": nk, "N": N}, pre=[lambda ki, n: 0 <= ki < P["nk"] and 1 <= n <= P["N"]], timeout=600 if q else 2400, bounds="all %d tonics valid for the class (realised); octaves 1..%d" % (nk, N)))
    for cls in sorted(RS.PATTERNS):
        nk = len(_tonics(cls)) if not q else min(3, len(_tonics(cls)))
        cl.append(Claim("degrees[%s]" % cls, c05_degrees, params={"cls": cls, "nk": nk}, pre=[lambda ki, n, d: 0 <= ki < P["nk"] and 1 <= n <= 2 and -2 <= d], timeout=600 if q else 2400, bounds="%d tonics (realised) x octaves 1..2; degree d symbolic in -2..scale length; both directions" % nk))
    for ci in range(len(ALLCLS)):
        cl.append(Claim("equality[%s]" % ALLCLS[ci], c05_equality, params={"ci": ci}, group="c05_equality", pre=[lambda ci, cj, ti, n: ci == P["ci"] and 0 <= cj < len(ALLCLS) and 0 <= ti < (1 if q else 3) and 1 <= n <= 2], timeout=900 if q else 3000, bounds="== and != between %s and each of the 17 classes on %d common tonic(s), octave counts 1..2 and unequal counts" % (ALLCLS[ci], 1 if q else 3)))
    cl.append(Claim("bad_direction", c05_bad_direction, pre=[lambda x: len(x) <= 2], timeout=120, bounds="direction: every unicode string, len <= 2"))
    cl.append(Claim("lowercase_tonic", c05_lowercase_tonic, pre=[lambda ki: 0 <= ki < len(RS.ANY_TONIC)], timeout=120, bounds="lower-case tonic rejected, 9 classes"))
    pool = list(range(len(INPUTS)))
    if q:
        pool = [i for i in pool if i < 21 or i >= 126 or (i - 21) % 3 == 0]
    step = 4
    for b in range(0, len(pool), step):
        ids = pool[b : b + step]
        cl.append(Claim("recognise[%d..%d]" % (ids[0], ids[-1]), c05_recognise, params={"ids": ids}, group="c05_recognise", pre=[lambda i: i in P["ids"]], timeout=900, per_path=120, bounds="recognition inputs %r of the pool (21 single names, the 105 full seven-note scale contents, 7 hand-picked sets)" % (ids,)))
    if not q:
        step = 5
        for lo in range(0, len(PAIRS), step):
            ids = list(range(lo, min(lo + step, len(PAIRS))))
            cl.append(Claim("recognise_pairs[%d..%d]" % (ids[0], ids[-1]), c05_recognise, params={"ids": ids, "pairs": True}, group="c05_recognise", pre=[lambda i: i in P["ids"]], timeout=900, per_path=120, bounds="all 210 unordered pairs of the 21 names with <= 1 accidental: pairs %d..%d" % (ids[0], ids[-1])))
    return cl
