"""C06  Chord shorthand construction (mingus/core/chords.py)."""
from vf.claim import Claim, assume, pick, raises_, real
from vf.ref import chords as RC
from vf.ref import theory as T
from vf.ref.theory import is_name, pc, spelled

from mingus.core import chords
from mingus.core.mt_exceptions import FormatError, NoteFormatError

P = {}
ASSUMPTIONS = [
    "reference: chord formula table vf/ref/chords.py (letter steps, semitones) per shorthand, from general harmony and the library's documented meanings",
    "shorthand / alias / polychord partner dimensions are finite tables: sharded or realised (solver-enumerated); the root / bass spelling is symbolic",
]
OUTSIDE = ["roots with more accidentals than the stated K", "malformed suffixes containing the alias letters m,i,n,a,j,- or / | # b (their normalisation is covered by the alias claims only for table shorthands)"]
SH = sorted(RC.FORMULAS)


def _fname(meaning):
    return meaning.replace("/", "_").replace(" ", "_")


def c06_formula(root: str) -> bool:
    sh = P["sh"]
    r = chords.from_shorthand(root + sh)
    if not RC.matches(r, root, RC.FORMULAS[sh]):
        return False
    f = getattr(chords, _fname(RC.MEANINGS[sh]), None)
    if f is not None and f(root) != r:
        return False
    return True


def c06_tables(i: int) -> bool:
    """constructible set == meaning set == reference table; same meaning => same formula"""
    keys = sorted(set(SH) | set(chords.chord_shorthand) | set(chords.chord_shorthand_meaning))
    assume(0 <= i < len(keys))
    k = pick(keys, i)
    if k not in chords.chord_shorthand or k not in chords.chord_shorthand_meaning or k not in RC.FORMULAS:
        return False
    if chords.chord_shorthand_meaning[k].strip() != RC.MEANINGS[k]:
        return False
    for o in keys:
        if o in RC.MEANINGS and RC.MEANINGS[o] == RC.MEANINGS[k]:
            if chords.from_shorthand("Eb" + o) != chords.from_shorthand("Eb" + k):
                return False
    return True


ALIASES = [("m", "min"), ("m", "mi"), ("m", "-"), ("M", "maj"), ("M", "ma")]
ALIAS_CASES = [(sh, a, b) for sh in SH for (a, b) in ALIASES if a in sh]


def c06_alias(i: int, root: str) -> bool:
    sh, a, b = pick(ALIAS_CASES, i)
    return chords.from_shorthand(root + sh.replace(a, b)) == chords.from_shorthand(root + sh) and RC.matches(chords.from_shorthand(root + sh.replace(a, b)), root, RC.FORMULAS[sh])


SLASH_POOL = ["", "m", "m7", "6/9", "m/M7", "6/7", "7b5", "dim7", "M13", "sus4"]


def c06_slash(root: str, bass: str, i: int) -> bool:
    sh = pick(SLASH_POOL, i)
    r = chords.from_shorthand(root + sh + "/" + bass)
    return r[0] == bass and RC.matches(r[1:], root, RC.FORMULAS[sh])


def c06_bad_slash(root: str, bass: str, i: int) -> bool:
    """a slash bass that is not a note name is malformed input: rejected with the (note-)format error"""
    sh = pick(SLASH_POOL, i)
    for ch in "m-/|":
        assume(ch not in bass)
    assume(not spelled(bass, 4))
    assume(sh + "/" + bass not in ("m/M7", "6/9", "6/7"))
    return raises_((FormatError, NoteFormatError), chords.from_shorthand, root + sh + "/" + bass)


POLY_POOL = ["C", "Dm", "F#7", "Bbm7b5", "G6/9", "Em/M7", "Am", "E"]


def c06_poly(i: int, j: int) -> bool:
    X = pick(POLY_POOL, i)
    Y = pick(POLY_POOL, j)
    x = chords.from_shorthand(X)
    y = chords.from_shorthand(Y)
    exp = list(y)
    for n in x:
        if n != exp[-1]:
            exp.append(n)
    return chords.from_shorthand(X + "|" + Y) == exp


def c06_nc_and_lists(i: int, j: int) -> bool:
    a = pick(POLY_POOL, i)
    b = pick(POLY_POOL, j)
    if chords.from_shorthand("NC") != [] or chords.from_shorthand("N.C.") != []:
        return False
    return chords.from_shorthand([a, "NC", b]) == [chords.from_shorthand(a), [], chords.from_shorthand(b)]


_EXCL = "minaj-/|#b"


def c06_bad_suffix(root: str, suf: str) -> bool:
    for ch in _EXCL:
        assume(ch not in suf)
    assume(suf not in RC.FORMULAS)
    return raises_(FormatError, chords.from_shorthand, root + suf)


def c06_bad_root(s: str) -> bool:
    assume(s[0] not in "ABCDEFG")
    assume(s != "NC" and s != "N.C.")
    return raises_(NoteFormatError, chords.from_shorthand, s)


def claims(tier):
    q = tier == "quick"
    K = 1 if q else 2
    cl = []
    for sh in SH:
        cl.append(Claim("formula[%s]" % sh, c06_formula, params={"sh": sh, "K": K}, pre=[lambda root: spelled(root, P["K"])], timeout=400 if q else 2400, bounds="root = letter + {#,b}^<=%d (symbolic); shorthand %r" % (K, sh)))
    cl.append(Claim("tables", c06_tables, pre=[lambda i: 0 <= i < 80], timeout=600, bounds="every key of the builder table, the meaning table and the reference table"))
    n = len(ALIAS_CASES)
    step = 6
    for lo in range(0, n, step):
        if q and (lo // step) % 2 == 1:
            continue  # quick tier: every other block of alias cases
        cl.append(Claim("alias[%d-%d]" % (lo, min(lo + step, n) - 1), c06_alias, params={"lo": lo, "hi": min(lo + step, n), "K": 0 if q else 1}, pre=[lambda i, root: P["lo"] <= i < P["hi"] and spelled(root, P["K"])], timeout=600 if q else 2400, bounds="alias cases %d..%d of (shorthand containing m/M) x (min, mi, -, maj, ma); root = letter + {#,b}^<=%d" % (lo, min(lo + step, n) - 1, 0 if q else 1)))
    for si in range(len(SLASH_POOL)):
        if q and si % 2 == 1:
            continue
        cl.append(Claim("slash[%s]" % SLASH_POOL[si], c06_slash, params={"K": 0 if q else 1, "si": si}, group="c06_slash", pre=[lambda root, bass, i: i == P["si"] and spelled(root, P["K"]) and spelled(bass, 1)], timeout=900 if q else 3000, bounds="root = letter%s; bass = letter + {#,b}^<=1 (both symbolic); chord type %r" % ("" if q else " + {#,b}^<=1", SLASH_POOL[si])))
    cl.append(Claim("polychord", c06_poly, pre=[lambda i, j: 0 <= i < len(POLY_POOL) and 0 <= j < len(POLY_POOL)], timeout=600, bounds="X|Y for X, Y in a pool of %d chords (realised)" % len(POLY_POOL)))
    cl.append(Claim("nc_and_lists", c06_nc_and_lists, pre=[lambda i, j: 0 <= i < 3 and 0 <= j < len(POLY_POOL)], timeout=300, bounds="NC, N.C., list input"))
    for si in range(len(SLASH_POOL)):
        cl.append(Claim("bad_slash[%s]" % SLASH_POOL[si], c06_bad_slash, params={"si": si, "K": 0, "L": 2 if q else 3}, group="c06_bad_slash", pre=[lambda root, bass, i: i == P["si"] and spelled(root, P["K"]) and 1 <= len(bass) <= P["L"]], timeout=900 if q else 3000, bounds="root = letter%s; chord type %r; bass: every unicode string of length 1..%d without m - / | that is not a note name" % ("", SLASH_POOL[si], 2 if q else 3)))
    cl.append(Claim("bad_suffix", c06_bad_suffix, pre=[lambda root, suf: spelled(root, 1) and 1 <= len(suf) <= (2 if q else 3)], timeout=600 if q else 2400, bounds="root = letter + {#,b}^<=1; suffix: every unicode string of length 1..%d without the alias/slash characters that is not a table key" % (2 if q else 3)))
    cl.append(Claim("bad_root", c06_bad_root, pre=[lambda s: 1 <= len(s) <= (3 if q else 4)], timeout=600 if q else 2400, bounds="every unicode string of length 1..%d whose first character is not A-G" % (3 if q else 4)))
    return cl
