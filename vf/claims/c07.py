"""C07  Chord recognition inverts construction (mingus/core/chords.py determine*)."""
from vf.claim import Claim, assume, enum, fork, pick, raises_, real, warm_cold
from vf.ref import chords as RC
from vf.ref import theory as T

from mingus.core import chords, intervals

P = {}
ASSUMPTIONS = [
    "all dimensions here (shorthand, root, rotation, pool indices) are finite tables: the solver enumerates them (one path per case, exhaustion certified); no symbolic compression is claimed for C07",
    "inversion k of a chord = its notes rotated left k times; ordinals: first .. sixth inversion",
]
OUTSIDE = ["roots outside the stated pools", "4-7 note inputs outside the stated name pool / not in increasing pool order", "chords of 8 or more notes"]
ORD = ["", ", first inversion", ", second inversion", ", third inversion", ", fourth inversion", ", fifth inversion", ", sixth inversion"]
NAT7 = list(T.LETTERS)
ROOTS21 = [l + a for l in T.LETTERS for a in ("", "#", "b")]
ROOTS_DBL = [l + a for l in T.LETTERS for a in ("##", "bb")]
SH = sorted(k for k, v in RC.FORMULAS.items() if len(v) >= 3)
SMALL = sorted(k for k, v in RC.FORMULAS.items() if 3 <= len(v) <= 4)


def _constructible(name):
    for half in name.split("|"):
        chords.from_shorthand(half)
    return True


def c07_recognise(ri: int, k: int) -> bool:
    sh = P["sh"]
    root = pick(P["roots"], ri)
    built = chords.from_shorthand(root + sh)
    n = len(built)
    assume(0 <= k < n)
    k = enum(k, 0, 7)
    rot = built[k:] + built[:k]
    short = chords.determine(list(rot), True)
    long = chords.determine(list(rot), False)
    if len(short) != len(long):
        return False
    found = False
    for idx in range(len(short)):
        name = short[idx]
        _constructible(name)
        if "|" in name:
            if long[idx] != name:
                return False
            continue
        if not name.startswith(root):
            continue
        suffix = name[len(root) :]
        if suffix[:1] in ("#", "b"):
            continue
        if chords.from_shorthand(name) == built:
            if long[idx] == root + " " + RC.MEANINGS[suffix] + ORD[k]:
                found = True
    return found


BIG = [x for x in ["M13", "13", "m13", "M11", "m11", "11", "7#11", "hendrix", "M9", "6/9"] if len(chords.from_shorthand("C" + x)) >= 5]


def c07_history(ri: int, bi: int, k: int, w: int, short: bool) -> bool:
    """recognition does not depend on what was recognised before: after a larger chord was analysed, every five-note
    window of every rotation of it (what the larger analysis looks at internally) is analysed as in the initial state"""
    root = pick(["C", "F#", "Bb"], ri)
    big = chords.from_shorthand(root + pick(BIG, bi))
    n = len(big)
    assume(0 <= k < n)
    k = enum(k, 0, 7)
    rot = big[k:] + big[:k]
    assume(n >= 5)
    w = enum(w, 0, 3)
    assume(w + 5 <= n)
    win = rot[w : w + 5]
    short = fork(short)
    return warm_cold(lambda: (chords.determine(list(big), True), chords.determine(list(big), False)), lambda: chords.determine(list(win), short))


def c07_trivial(i: int, j: int) -> bool:
    a = pick(ROOTS21, i)
    b = pick(ROOTS21, j)
    ok = chords.determine([]) == [] and chords.determine([], True) == []
    ok = ok and chords.determine([a]) == [a] and chords.determine([a], True) == [a]
    ok = ok and chords.determine([a, b]) == [intervals.determine(a, b)]
    return ok


def c07_three(i: int, j: int, k: int) -> bool:
    pool = P["pool"]
    ns = [pick(pool, i), pick(pool, j), pick(pool, k)]
    short = chords.determine(list(ns), True)
    long = chords.determine(list(ns), False)
    if len(short) != len(long):
        return False
    for name in short:
        _constructible(name)
        if "|" not in name:
            c = chords.from_shorthand(name)
            for x in ns:
                if x not in c:
                    return False
    return True


def c07_many(a: int, b: int, c: int, d: int, e: int, f: int, g: int) -> bool:
    """4..7 notes from a pool taken in increasing pool order: no raise, same length, all names constructible"""
    pool = P["pool"]
    size = P["size"]
    idx = [a, b, c, d, e, f, g][:size]
    for x in range(size):
        assume(0 <= idx[x] < len(pool))
        if x:
            assume(idx[x - 1] < idx[x])
    for x in range(size, 7):
        assume([a, b, c, d, e, f, g][x] == 0)
    ns = [pick(pool, x) for x in idx]
    short = chords.determine(list(ns), True)
    long = chords.determine(list(ns), False)
    if len(short) != len(long):
        return False
    for name in short:
        _constructible(name)
    return True


POOL8 = ["C", "D", "E", "F", "G", "A", "B", "Bb"]
POOL10 = ["C", "D", "Eb", "E", "F", "F#", "G", "A", "Bb", "B"]


def claims(tier):
    q = tier == "quick"
    cl = []
    roots = NAT7 if q else ROOTS21
    for bi in range(len(BIG)):
        cl.append(Claim("history[%s]" % BIG[bi], c07_history, params={"bi": bi}, group="c07_history", pre=[lambda ri, bi, k, w: 0 <= ri < (1 if q else 3) and bi == P["bi"] and 0 <= k < 7 and 0 <= w < 3], timeout=900 if q else 3000, per_path=120, bounds="after analysing %s on %d root(s): every 5-note window of every rotation, shorthand and long form, equals its analysis in the initial state" % (BIG[bi], 1 if q else 3)))
    for sh in SH:
        cl.append(Claim("recognise[%s]" % sh, c07_recognise, params={"sh": sh, "roots": roots}, group="c07_recognise", pre=[lambda ri, k: 0 <= ri < len(P["roots"]) and 0 <= k < 7], timeout=900 if q else 3000, per_path=120, bounds="shorthand %r x %d roots x every rotation x {shorthand, long form}" % (sh, len(roots))))
    if not q:
        for sh in SMALL:
            cl.append(Claim("recognise_dbl[%s]" % sh, c07_recognise, params={"sh": sh, "roots": ROOTS_DBL}, group="c07_recognise", pre=[lambda ri, k: 0 <= ri < len(P["roots"]) and 0 <= k < 7], timeout=3000, per_path=120, bounds="shorthand %r x the 14 double-accidental roots x every rotation x both forms" % sh))
    cl.append(Claim("trivial", c07_trivial, pre=[lambda i, j: 0 <= i < 21 and 0 <= j < (3 if q else 21)], timeout=900, bounds="chords of 0, 1, 2 notes over the 21 names with <= 1 accidental"))
    pool = NAT7 if q else ROOTS21
    for i0 in range(len(pool)):
        cl.append(Claim("three[%s]" % pool[i0], c07_three, params={"pool": pool, "i0": i0}, group="c07_three", pre=[lambda i, j, k: i == P["i0"] and 0 <= j < len(P["pool"]) and 0 <= k < len(P["pool"])], timeout=900 if q else 3000, per_path=120, bounds="all three-note inputs starting with %s over the %d-name pool" % (pool[i0], len(pool))))
    mp = POOL8 if q else POOL10
    for size in (4, 5, 6, 7):
        for first in range(len(mp) - size + 1):
            cl.append(Claim("many[size=%d,first=%s]" % (size, mp[first]), c07_many, params={"pool": mp, "size": size, "first": first}, group="c07_many", pre=[lambda a: a == P["first"]], timeout=900 if q else 3000, per_path=200, bounds="%d-note inputs = increasing-index subsets of %r starting at %s: no raise, same length, names constructible" % (size, mp, mp[first])))
    return cl
