"""C08  Diatonic harmony, roman numerals, substitutions (chords.py, progressions.py)."""
from vf.claim import Claim, assume, enum, fork, pick, raises_, real
from vf.ref import chords as RC
from vf.ref import theory as T
from vf.ref.theory import net, pc, spelled

from mingus.core import chords, progressions

P = {}
ASSUMPTIONS = [
    "reference: diatonic triads/sevenths are stacks of thirds inside vf/ref/theory.key_notes; numeral semantics from the property text",
    "key, degree, numeral, suffix and recursion depth are finite tables (realised / sharded); accidental prefixes are symbolic strings where stated",
    "parse/format round trip is asserted for canonical numerals (upper-case roman part, prefix of only sharps or only flats), the form tuple_to_string can emit",
]
OUTSIDE = ["prefixes longer than 3 accidentals", "numeral strings with accidentals after the roman part", "substitute_diminished_for_dominant (undocumented) beyond well-formedness and argument preservation"]
KEYS = T.all_keys()
FUNCS = ["tonic", "supertonic", "mediant", "subdominant", "dominant", "submediant", "subtonic"]
NUM_UP = ["I", "II", "III", "IV", "V", "VI", "VII"]
NUM_LO = ["i", "ii", "iii", "iv", "v", "vi", "vii"]
FUNC_NUM = ["I", "ii", "iii", "IV", "V", "vi", "vii"]
SUFFIXES = sorted(k for k in RC.FORMULAS if k not in ("", "7"))  # "" and "7" denote the diatonic triad / seventh


def _stack(key, d, n):
    kn = T.key_notes(T.key_tonic(key), T.key_is_minor(key))
    return [kn[(d + 2 * i) % 7] for i in range(n)]


def c08_diatonic(ki: int, d: int) -> bool:
    key = pick(KEYS, ki)
    d = enum(d, 0, 7)
    tri = _stack(key, d, 3)
    sev = _stack(key, d, 4)
    if chords.triads(key)[d] != tri or chords.sevenths(key)[d] != sev:
        return False
    if chords.triad(tri[0], key) != tri or chords.seventh(tri[0], key) != sev:
        return False
    if getattr(chords, FUNCS[d])(key) != tri or getattr(chords, FUNCS[d] + "7")(key) != sev:
        return False
    for nm in (NUM_UP[d], NUM_LO[d]):
        f = getattr(chords, nm, None)
        if f is not None and f(key) != tri:
            return False
        f7 = getattr(chords, nm + "7", None)
        if f7 is not None and f7(key) != sev:
            return False
    if getattr(chords, NUM_UP[d], None) is None and getattr(chords, NUM_LO[d], None) is None:
        return False
    for nm in (NUM_UP[d], NUM_LO[d]):
        if progressions.to_chords(nm, key) != [tri] or progressions.to_chords(nm + "7", key) != [sev]:
            return False
    return progressions.to_chords([NUM_UP[d], NUM_LO[d] + "7"], key) == [tri, sev]


def c08_repeatable(ki: int, d: int, seven: bool, how: int) -> bool:
    """a numeral denotes the same chord every time it is asked for, also after the caller edited an earlier answer
    in place (the chords handed out are the caller's)"""
    key = pick(KEYS, ki)
    d = enum(d, 0, 7)
    want = _stack(key, d, 4 if seven else 3)
    num = NUM_UP[d] + ("7" if seven else "")
    how = enum(how, 0, 3)
    if how == 0:
        r = progressions.to_chords([num], key)
        r[0].append("X")
    elif how == 1:
        r = getattr(chords, FUNCS[d] + ("7" if seven else ""))(key)
        del r[1:]
    else:
        r = (chords.sevenths if seven else chords.triads)(key)
        r[d][0] = "X"
    return progressions.to_chords([num], key) == [want] and getattr(chords, FUNCS[d] + ("7" if seven else ""))(key) == want and (chords.sevenths if seven else chords.triads)(key)[d] == want


def c08_prefix(pre: str, ki: int, d: int, seven: bool) -> bool:
    key = pick(P["keys"], ki)
    d = enum(d, 0, 7)
    base = _stack(key, d, 4 if seven else 3)
    r = progressions.to_chords(pre + NUM_UP[d] + ("7" if seven else ""), key)
    if len(r) != 1 or len(r[0]) != len(base):
        return False
    shift = net("x" + pre)
    for got, b in zip(r[0], base):
        if got[0] != b[0] or pc(got) != (pc(b) + shift) % 12:
            return False
    return True


def c08_suffix(ki: int, d: int, si: int, lower: bool) -> bool:
    key = pick(P["keys"], ki)
    d = enum(d, 0, 7)
    suf = pick(P["suffixes"], si)
    root = _stack(key, d, 1)[0]
    nm = (NUM_LO if lower else NUM_UP)[d]
    r = progressions.to_chords(nm + suf, key)
    return len(r) == 1 and RC.matches(r[0], root, RC.FORMULAS[suf]) and r[0] == chords.from_shorthand(root + suf)


def c08_prefix_suffix(pre: str, ki: int, d: int, si: int) -> bool:
    """an accidental prefix in front of a numeral that also carries a chord suffix"""
    key = pick(P["keys"], ki)
    d = enum(d, 0, 7)
    suf = pick(P["suffixes"], si)
    root = _stack(key, d, 1)[0]
    base = chords.from_shorthand(root + suf)
    r = progressions.to_chords(pre + NUM_UP[d] + suf, key)
    if len(r) != 1 or len(r[0]) != len(base):
        return False
    shift = net("x" + pre)
    for got, b in zip(r[0], base):
        if got[0] != b[0] or pc(got) != (pc(b) + shift) % 12:
            return False
    return True


def c08_unrecognised(s: str) -> bool:
    assume("#" not in s and "b" not in s)
    roman = ""
    for ch in s:
        if ch.upper() == "I" or ch.upper() == "V":  # any character whose upper case is I or V (the library's rule)
            roman += ch.upper()
        else:
            break
    assume(roman not in NUM_UP)
    return progressions.to_chords(s, "C") == [] and progressions.to_chords(["I", s], "C") == []


def c08_parse_format(pre: str, d: int, si: int) -> bool:
    assume(("#" not in pre) or ("b" not in pre))
    d = enum(d, 0, 7)
    suf = pick(["", "7"] + SUFFIXES, si)
    s = pre + NUM_UP[d] + suf
    t = progressions.parse_string(s)
    if t != (NUM_UP[d], net("x" + pre), suf):
        return False
    return progressions.tuple_to_string(t) == s


def c08_determine(ki: int, d: int, seven: bool) -> bool:
    key = pick(T.MAJOR_KEYS, ki)
    d = enum(d, 0, 7)
    seven = fork(seven)
    ch = _stack(key, d, 4 if seven else 3)
    long = progressions.determine(list(ch), key)
    short = progressions.determine(list(ch), key, True)
    if len(long) != len(short):
        return False
    want_long = FUNCS[d] + (" seventh" if seven else "")
    want_short = FUNC_NUM[d] + ("7" if seven else "")
    if want_long not in long or want_short not in short or long.index(want_long) != short.index(want_short):
        return False
    if progressions.to_chords(want_short, key) != [ch]:
        return False
    return progressions.determine([list(ch), list(ch)], key, True) == [short, short]


def _roots(prog, key):
    return [pc(c[0]) for c in progressions.to_chords(prog, key)]


def _wellformed(x):
    roman, acc, suf = progressions.parse_string(x)
    return roman in NUM_UP and (suf in ("", "7") or suf in RC.FORMULAS) and -12 < acc < 12


def c08_subst_harmonic(ri: int, acc: int, seven: bool, ki: int) -> bool:
    key = pick(P["keys"], ki)
    acc = enum(acc, -2, 3)
    seven = fork(seven)
    roman = pick(NUM_UP, ri)
    item = ("#" * acc if acc > 0 else "b" * (-acc)) + roman + ("7" if seven else "")
    prog = ["I", item, "V"]
    before = list(prog)
    res = progressions.substitute_harmonic(prog, 1)
    if prog != before:
        return False
    orig = set(pc(x) for x in progressions.to_chords(item, key)[0][:3])
    for x in res:
        if not _wellformed(x):
            return False
        c = progressions.to_chords(x, key)
        if len(c) != 1:
            return False
        if len(orig & set(pc(y) for y in c[0][:3])) != 2:
            return False
        if (x[-1:] == "7") != seven:
            return False
    expect_n = {"I": 2, "II": 1, "III": 1, "IV": 2, "V": 1, "VI": 2, "VII": 1}[roman]
    return len(res) == expect_n


def c08_subst_quality(ri: int, acc: int, si: int, ki: int) -> bool:
    """minor-for-major (root a minor third above), major-for-minor (a major sixth above), diminished cycle"""
    key = pick(P["keys"], ki)
    acc = enum(acc, -2, 3)
    roman = pick(NUM_UP, ri)
    suf = pick(["m", "m7", "M", "M7", "dim", "dim7", ""], si)
    item = ("#" * acc if acc > 0 else "b" * (-acc)) + roman + suf
    prog = [item]
    r0 = _roots(item, key)[0]
    a = progressions.substitute_minor_for_major(prog, 0)
    b = progressions.substitute_major_for_minor(prog, 0)
    c = progressions.substitute_diminished_for_diminished(prog, 0)
    e = progressions.substitute_diminished_for_dominant(prog, 0)
    if prog != [item]:
        return False
    for x in a + b + c + e:
        if not _wellformed(x):
            return False
    minorish = suf in ("m", "m7") or (suf == "" and roman in ("II", "III", "VI"))
    majorish = suf in ("M", "M7") or (suf == "" and roman in ("I", "IV", "V"))
    dimish = suf in ("dim", "dim7") or (suf == "" and roman == "VII")
    if minorish:
        if len(a) != 1 or _roots(a[0], key)[0] != (r0 + 3) % 12:
            return False
        if progressions.parse_string(a[0])[2] != {"m": "M", "m7": "M7", "": ""}[suf]:
            return False
    elif a != []:
        return False
    if majorish:
        if len(b) != 1 or _roots(b[0], key)[0] != (r0 + 9) % 12:
            return False
        if progressions.parse_string(b[0])[2] != {"M": "m", "M7": "m7", "": ""}[suf]:
            return False
    elif b != []:
        return False
    if dimish:
        if len(c) != 3:
            return False
        want_suf = suf if suf else "dim"
        for i, x in enumerate(c):
            if _roots(x, key)[0] != (r0 + 3 * (i + 1)) % 12 or progressions.parse_string(x)[2] != want_suf:
                return False
    elif c != []:
        return False
    return True


def c08_substitute(ri: int, acc: int, si: int, depth: int) -> bool:
    acc = enum(acc, -2, 3)
    depth = enum(depth, 0, 3)
    roman = pick(NUM_UP, ri)
    suf = pick(["", "7", "m", "m7", "M", "M7", "dim", "dim7"], si)
    item = ("#" * acc if acc > 0 else "b" * (-acc)) + roman + suf
    prog = ["IV", item, "V7"]
    before = list(prog)
    res = progressions.substitute(prog, 1, depth)
    if prog != before:
        return False
    for x in res:
        if not _wellformed(x):
            return False
        if len(progressions.to_chords(x, "C")) != 1:
            return False
    if depth == 0:
        return res == progressions.substitute(list(before), 1)
    return res[: len(progressions.substitute(list(before), 1, 0))] == progressions.substitute(list(before), 1, 0)


def claims(tier):
    q = tier == "quick"
    cl = []
    cl.append(Claim("diatonic[major]", c08_diatonic, pre=[lambda ki, d: 0 <= ki < 15 and 0 <= d < 7], timeout=900, bounds="15 major keys x 7 degrees: triads, sevenths, function names, numeral aliases (with 7), progression strings in both cases"))
    cl.append(Claim("diatonic[minor]", c08_diatonic, pre=[lambda ki, d: 15 <= ki < 30 and 0 <= d < 7], timeout=900, bounds="15 minor keys x 7 degrees, as above"))
    keys_q = ["C", "F#", "Eb", "a", "g#"]
    keysets = [keys_q] if q else [KEYS[i : i + 5] for i in range(0, 30, 5)]
    for n, ks in enumerate(keysets):
        for d0 in range(7):
            cl.append(Claim("prefix[keys%d,%s]" % (n, NUM_UP[d0]), c08_prefix, params={"keys": ks, "d0": d0}, group="c08_prefix", pre=[lambda pre, ki, d, seven: spelled("C" + pre, 3) and 0 <= ki < len(P["keys"]) and d == P["d0"]], timeout=900 if q else 3000, bounds="prefix: every string over {#,b} of length <= 3 (symbolic); keys %r; degree %s; triad and seventh" % (ks, NUM_UP[d0])))
    step = 9
    for n, ks in enumerate(keysets):
        for lo in range(0, len(SUFFIXES), step):
            sfx = SUFFIXES[lo : lo + step]
            cl.append(Claim("suffix[keys%d,%d-%d]" % (n, lo, lo + len(sfx) - 1), c08_suffix, params={"keys": ks, "suffixes": sfx}, pre=[lambda ki, d, si: 0 <= ki < len(P["keys"]) and 0 <= d < 7 and 0 <= si < len(P["suffixes"])], timeout=900 if q else 3000, bounds="keys %r x 7 degrees x suffixes %r x numeral case" % (ks, sfx)))
    psuf = ["m7", "dim7", "M7"] if q else SUFFIXES
    pkeys = ["f#"] if q else ["C", "f#", "Ab", "e", "B"]
    for pk in pkeys:
        for lo in range(0, len(psuf), 4):
            sub_ = psuf[lo : lo + 4]
            cl.append(Claim("prefix_suffix[%s,%d-%d]" % (pk, lo, lo + len(sub_) - 1), c08_prefix_suffix, params={"keys": [pk], "suffixes": sub_}, group="c08_prefix_suffix", pre=[lambda pre, ki, d, si: spelled("C" + pre, 2) and ki == 0 and 0 <= d < 7 and 0 <= si < len(P["suffixes"])], timeout=900 if q else 3000, bounds="key %s: prefix = every string over {#,b} of length <= 2 (symbolic) in front of numeral + suffix %r; 7 degrees" % (pk, sub_)))
    cl.append(Claim("repeatable", c08_repeatable, pre=[lambda ki, d, how: 0 <= ki < 30 and 0 <= d < 7 and 0 <= how < 3], timeout=900 if q else 3000, bounds="30 keys x 7 degrees x triad/seventh: the chord of a numeral / function name / table row after an earlier answer was edited in place (3 ways)"))
    cl.append(Claim("unrecognised", c08_unrecognised, pre=[lambda s: 1 <= len(s) <= 3], timeout=900 if q else 3000, bounds="every unicode string of length 1..3 without '#'/'b' whose leading I/V run is not a numeral"))
    if not q:
        cl.append(Claim("unrecognised[len4,numeral-led]", c08_unrecognised, group="c08_unrecognised", pre=[lambda s: len(s) == 4 and s[0] in "IViv"], timeout=3000, per_path=300, bounds="every unicode string of length 4 starting with I, V, i or v, without '#'/'b', whose leading I/V run is not a numeral"))
        cl.append(Claim("unrecognised[len4,other]", c08_unrecognised, group="c08_unrecognised", pre=[lambda s: len(s) == 4 and s[0] not in "IViv"], timeout=3000, per_path=300, bounds="every unicode string of length 4 not starting with I, V, i or v, without '#'/'b'"))
    nsfx = 12 if q else len(SUFFIXES) + 2
    for d0 in range(7):
        cl.append(Claim("parse_format[%s]" % NUM_UP[d0], c08_parse_format, params={"d0": d0, "nsfx": nsfx}, group="c08_parse_format", pre=[lambda pre, d, si: spelled("C" + pre, 3) and d == P["d0"] and 0 <= si < P["nsfx"]], timeout=900 if q else 3000, bounds="prefix #^k or b^k, k <= 3 (symbolic); numeral %s; %d suffixes" % (NUM_UP[d0], nsfx)))
    cl.append(Claim("determine", c08_determine, pre=[lambda ki, d: 0 <= ki < 15 and 0 <= d < 7], timeout=900 if q else 3000, per_path=60, bounds="15 major keys x 7 degrees x {triad, seventh} x {long, shorthand}"))
    mk = ["C", "Gb", "A"] if q else T.MAJOR_KEYS
    for ri in range(7):
        cl.append(Claim("subst_harmonic[%s]" % NUM_UP[ri], c08_subst_harmonic, params={"keys": mk, "ri": ri}, pre=[lambda ri, acc, ki: ri == P["ri"] and -2 <= acc <= 2 and 0 <= ki < len(P["keys"])], timeout=900 if q else 3000, bounds="numeral %s x prefix -2..2 x {triad, 7} x %d major keys" % (NUM_UP[ri], len(mk))))
        cl.append(Claim("subst_quality[%s]" % NUM_UP[ri], c08_subst_quality, params={"keys": mk, "ri": ri}, pre=[lambda ri, acc, si, ki: ri == P["ri"] and -2 <= acc <= 2 and 0 <= si < 7 and 0 <= ki < len(P["keys"])], timeout=900 if q else 3000, bounds="numeral %s x prefix -2..2 x 7 suffixes x %d major keys" % (NUM_UP[ri], len(mk))))
        cl.append(Claim("substitute[%s]" % NUM_UP[ri], c08_substitute, params={"ri": ri}, pre=[lambda ri, acc, si, depth: ri == P["ri"] and -2 <= acc <= 2 and 0 <= si < 8 and 0 <= depth <= (1 if q else 2)], timeout=900 if q else 3000, per_path=60, bounds="numeral %s x prefix -2..2 x 8 suffixes x depth 0..%d: well-formed, denotes a chord, argument unchanged" % (NUM_UP[ri], 1 if q else 2)))
    return cl
