"""C09  Note values and meters (mingus/core/value.py, meter.py)."""
import math
from fractions import Fraction

from vf.claim import Claim, assume, enum, fork, pick, raises_, real, symbolic_mode, unsupported, warm_cold
from vf.fuel import FuelExhausted, with_fuel
from vf.dyadic import Dy, validate as _dy_validate

_dy_validate(500)

from mingus.core import meter, value

P = {}
ASSUMPTIONS = [
    "float model: z3 Float64 RNE for the +-1% windows, tuplet formulas and float beat units",
    "valid_beat_duration on integer beat units: symbolic_int / 2 stays an integer term when the path condition implies the int is even and |int| <= 2^53 (the quotient is an exactly representable double, all later tests have the same truth value)",
    "valid_beat_duration on float beat units: the double is passed as an exact dyadic value num*2^exp (vf/dyadic.py) whose ==, >, %2 and /2 are integer arithmetic; these operations are exact in binary64 for the values concerned, and the model is validated against real doubles on every run",
    "termination: the while loop of meter.valid_beat_duration is recompiled from the current source with a fuel counter (1100 iterations: a positive double can be halved at most 1075 times before reaching 0); replay runs the real function under a 10 s limit",
    "add/subtract are compared with exact Fractions to 1e-12 relative (the only tolerance in this property)",
]
OUTSIDE = ["integer beat units with |d| > 2^53 (int/float conversion rounds or overflows)", "note values outside the documented vocabulary", "dots combined with tuplets"]
BASES = [0.25, 0.5, 1, 2, 4, 8, 16, 32, 64, 128]
TUPLETS = [(1, 1), (3, 2), (5, 4), (7, 4)]


def _build(base, dots, rat):
    if dots:
        return value.dots(base, dots)
    if rat == (3, 2):
        return value.triplet(base)
    if rat == (5, 4):
        return value.quintuplet(base)
    if rat == (7, 4):
        return value.septuplet(base)
    return base


def c09_exact(bi: int, dots: int, ti: int) -> bool:
    base = pick(BASES, bi)
    dots = enum(dots, 0, 5)
    rat = pick(TUPLETS, ti)
    assume(dots == 0 or rat == (1, 1))
    v = _build(base, dots, rat)
    r = value.determine(v)
    return r == (base, dots, rat[0], rat[1])


def c09_window(v: float) -> bool:
    base, dots, rat = P["base"], P["dots"], tuple(P["rat"])
    r = value.determine(v)
    return r == (base, dots, rat[0], rat[1])


def _window(base, dots, rat):
    x = _build(base, dots, rat)
    return float(x) * 0.99, float(x) * 1.01


def c09_history(bi: int, dots: int, ti: int, w: float, first: bool) -> bool:
    """analysis does not depend on what was analysed before: an exact value and a value within 1e-5 (relative) of it,
    analysed in either order, give what each gives in the initial state; the exact one still inverts construction"""
    base = pick(BASES, bi)
    dots = enum(dots, 0, 5)
    rat = pick(TUPLETS, ti)
    assume(dots == 0 or rat == (1, 1))
    v = _build(base, dots, rat)
    assume(v * (1 - 1e-5) <= w <= v * (1 + 1e-5))
    if fork(first):
        return warm_cold(lambda: value.determine(w), lambda: value.determine(v)) and value.determine(v) == (base, dots, rat[0], rat[1])
    return warm_cold(lambda: value.determine(v), lambda: value.determine(w))


def c09_tuplets(v: float) -> bool:
    a, b = P["ratio"]
    kind = P["kind"]
    exp = (a * v) / float(b)
    if kind == "triplet":
        got = value.triplet(v)
    elif kind == "quintuplet":
        got = value.quintuplet(v)
    elif kind == "septuplet":
        got = value.septuplet(v)
    elif kind == "septuplet8":
        got = value.septuplet(v, False)
    else:
        got = value.tuplet(v, a, b)
    return got == exp


def _vocab():
    out = []
    for b in BASES:
        out.append((float(b), Fraction(b).limit_denominator(8) if b < 1 else Fraction(b)))
        for d in (1, 2):
            out.append((value.dots(b, d), Fraction(b) / (2 - Fraction(1, 2 ** d))))
        out.append((value.triplet(b), Fraction(b) * 3 / 2))
        out.append((value.quintuplet(b), Fraction(b) * 5 / 4))
        out.append((value.septuplet(b), Fraction(b) * 7 / 4))
    return out


VOCAB = _vocab()


def c09_add_sub(i: int, j: int) -> bool:
    (a, fa) = pick(VOCAB, i)
    (b, fb) = pick(VOCAB, j)
    s = value.add(a, b)
    exact = 1 / (1 / fa + 1 / fb)
    if abs(Fraction(s) - exact) > exact * Fraction(1, 10 ** 12):
        return False
    back = value.subtract(s, b)
    if abs(Fraction(back) - fa) > fa * Fraction(1, 10 ** 11):
        return False
    if i != j:
        d = value.subtract(a, b)
        ex = 1 / (1 / fa - 1 / fb)
        if abs(Fraction(d) - ex) > abs(ex) * Fraction(1, 10 ** 11):
            return False
    return True


_VBD, _NLOOPS = with_fuel(meter.valid_beat_duration, 1100)


def _is_pow2_int(d):
    if d < 1:
        return False
    k = 1
    while k < d:
        k *= 2
    return k == d


def c09_beat_int(d: int) -> bool:
    r = _VBD(d)
    return bool(r) == _is_pow2_int(d) and bool(meter.valid_beat_duration(d)) == bool(r)


def c09_beat_float(m: int, neg: bool) -> bool:
    """every double with exponent P['e']: d = (+-)(2^52 + m) * 2^(e-52), run through the real function as an
    exact dyadic value (vf/dyadic.py)"""
    e = P["e"]
    num = (2 ** 52 + m)
    if neg:
        num = -num
    want = (not neg) and m == 0 and e >= 0
    if not symbolic_mode():
        # concrete replay: the real double through the real function
        return bool(meter.valid_beat_duration(float(num) * 2.0 ** (e - 52))) == want
    d = Dy(num, e - 52)
    try:
        r = _VBD(d)
    except (TypeError, AttributeError, AssertionError) as exc:
        unsupported("the code used an operation the exact dyadic stand-in does not model: %r" % (exc,))
    return bool(r) == want


def c09_beat_special(i: int) -> bool:
    d = pick([float("nan"), float("inf"), float("-inf"), 0.0, -0.0, 5e-324, 1.7976931348623157e308, 0.5, 2.5, 1.0, 2.0, 2.0 ** 1023, 2.0 ** 52 + 2.0, -2.0, 3.0, 1e300], i)
    r = _VBD(d)
    want = d in (1.0, 2.0, 2.0 ** 1023)
    return bool(r) == want and bool(meter.is_valid((4, d))) == want


def c09_meter(count: int, ui: int) -> bool:
    unit = pick([1, 2, 4, 8, 16, 32, 64, 128, 0, 3, 6, 12, -4, 5], ui)
    m = (count, unit)
    pow2 = unit in (1, 2, 4, 8, 16, 32, 64, 128)
    valid = count > 0 and pow2
    return (
        bool(meter.is_valid(m)) == valid
        and bool(meter.is_simple(m)) == valid
        and bool(meter.is_compound(m)) == (valid and count % 3 == 0 and count >= 6)
        and bool(meter.is_asymmetrical(m)) == (valid and count % 2 == 1)
    )


def claims(tier):
    q = tier == "quick"
    cl = []
    cl.append(Claim("exact", c09_exact, pre=[lambda bi, dots, ti: 0 <= bi < 10 and 0 <= dots <= 4 and 0 <= ti < 4], timeout=600, bounds="10 base values x (0-4 dots | plain, 3:2, 5:4, 7:4) (realised)"))
    for bi, base in enumerate(BASES):
        for dots, rat in ((0, (1, 1)), (1, (1, 1)), (0, (3, 2)), (0, (5, 4)), (0, (7, 4))):
            lo, hi = _window(base, dots, rat)
            cl.append(Claim("window[base=%s,dots=%d,%d:%d]" % (base, dots, rat[0], rat[1]), c09_window, params={"base": base, "dots": dots, "rat": rat, "lo": lo, "hi": hi}, group="c09_window", pre=[lambda v: P["lo"] <= v <= P["hi"]], timeout=600 if q else 1800, per_path=120, bounds="v: every double in [%r, %r] (value x 0.99 .. x 1.01), Float64" % (lo, hi)))
    for b9 in range(10):
        cl.append(Claim("history[base=%s]" % BASES[b9], c09_history, params={"bi": b9}, group="c09_history", pre=[lambda bi, dots, ti: bi == P["bi"] and 0 <= dots <= 4 and 0 <= ti < 4, lambda w: 0.0 < w < 1000.0], timeout=900 if q else 3000, per_path=120, bounds="base %s x (0-4 dots | 3 tuplets): the exact value and every double within 1e-5 (relative) of it, analysed in either order: each result equals the result in the initial state" % BASES[b9]))
    for kind, ratio in (("triplet", (3, 2)), ("quintuplet", (5, 4)), ("septuplet", (7, 4)), ("septuplet8", (7, 8)), ("tuplet", (9, 8)), ("tuplet", (11, 6))):
        cl.append(Claim("tuplets[%s,%d:%d]" % (kind, ratio[0], ratio[1]), c09_tuplets, params={"kind": kind, "ratio": ratio}, group="c09_tuplets", pre=[lambda v: 0.001 <= v <= 1000.0], timeout=900 if q else 3000, per_path=400, bounds="v: every double in [0.001, 1000] (Float64): %s == %d*v/%d" % (kind, ratio[0], ratio[1])))
    n = len(VOCAB)
    step = 10 if q else 5
    for lo in range(0, n, step):
        cl.append(Claim("add_sub[%d-%d]" % (lo, min(n, lo + step) - 1), c09_add_sub, params={"lo": lo, "hi": min(n, lo + step)}, pre=[lambda i, j: P["lo"] <= i < P["hi"] and 0 <= j < len(VOCAB) and (True if P.get("all") else True)], timeout=900 if q else 3000, bounds="value pairs (i in %d..%d) x all %d vocabulary values (realised; concrete doubles)" % (lo, min(n, lo + step) - 1, n)))
    B = 2 ** 20 if q else 2 ** 40
    cl.append(Claim("beat_int", c09_beat_int, pre=[lambda d: -B <= d <= B], exact_int_div=True, timeout=900 if q else 3000, per_path=120, bounds="d: every integer in [-%d, %d]; fuel 1100; %d while loop(s) instrumented" % (B, B, _NLOOPS)))
    es = list(range(-3, 13)) if q else list(range(-12, 41)) + [-1022, -500, 100, 1023]
    for e in es:
        cl.append(Claim("beat_float[e=%d]" % e, c09_beat_float, params={"e": e}, group="c09_beat_float", pre=[lambda m: 0 <= m < 2 ** 52], timeout=900 if q else 3000, per_path=120, bounds="every double +-(1.m) * 2^%d (all 2^52 mantissas, both signs) as an exact dyadic value; fuel 1100" % e))
    cl.append(Claim("beat_special", c09_beat_special, pre=[lambda i: 0 <= i < 16], timeout=300, bounds="NaN, +-inf, +-0, min subnormal, max double, 0.5, 2.5, 2^1023, ... (16 concrete doubles), fuel 1100"))
    cl.append(Claim("meter", c09_meter, pre=[lambda ui: 0 <= ui < 14], timeout=600, bounds="count: every integer (unbounded, symbolic); unit from 14 representative units (realised)"))
    return cl
