"""C10  Note object: pitch number, text forms, ordering, bounds, Helmholtz, Hz (containers/note.py)."""
from vf.claim import Claim, assume, enum, fork, pick, raises_, real
from vf.ref import theory as T
from vf.ref.theory import NAT, net, pc, spelled

from mingus.containers import Note
from mingus.containers.mt_exceptions import NoteFormatError as CNoteFormatError
from mingus.core.mt_exceptions import NoteFormatError

P = {}
ASSUMPTIONS = [
    "reference: pitch number = 12*octave + natural pitch of the letter + sharps - flats",
    "Hz clause: math.log / 2**x are libm calls CrossHair cannot encode; the Hz round trip is executed on concrete doubles for every note 0..127 x listed standard pitches x listed detunings (solver-enumerated indices); the arithmetic margin (0.1 semitone) is what the bound relies on",
    "printed form: repr(note) is 'Name-octave' in quotes; the text between the quotes is fed back",
]
OUTSIDE = ["names with more accidentals than the stated K", "octaves outside the stated range", "negative octaves in 'Name-octave' text", "Hz: detunings other than the listed ones (libm is not encoded)"]
NAMES35 = [l + a for l in T.LETTERS for a in ("", "#", "b", "##", "bb")]


def c10_int(name: str, o: int) -> bool:
    n = Note(name, o)
    return int(n) == 12 * o + NAT[name[0]] + net(name) and n.name == name and n.octave == o


def c10_from_int(i: int) -> bool:
    a = Note(i)
    b = Note().from_int(i)
    return int(a) == i and int(b) == i and a.name == b.name and a.octave == b.octave == i // 12 and len(a.name) <= 2 and "b" not in a.name[1:]


def c10_from_text(name: str, o: int) -> bool:
    src = Note(name, o)
    text = "%s-%d" % (name, o)
    a = Note(text)
    ok = a.name == name and a.octave == o and int(a) == int(src)
    r = repr(src)
    ok = ok and r == "'" + text + "'"
    b = Note(r[1:-1])
    ok = ok and int(b) == int(src) and b.name == name
    return ok


def c10_copy(name: str, o: int, vel: int, ch: int) -> bool:
    src = Note(name, o, velocity=vel, channel=ch)
    cp = Note(src)
    if not (cp is not src and cp.name == name and cp.octave == o and cp.velocity == vel and cp.channel == ch and int(cp) == int(src) and cp == src):
        return False
    cp.augment()
    cp.octave_up()
    cp.set_velocity((vel + 1) % 128)
    cp.set_channel((ch + 1) % 16)
    if not (src.name == name and src.octave == o and src.velocity == vel and src.channel == ch):
        return False
    src.diminish()
    return cp.name == name + "#" or cp.name == name[:-1]


def c10_compare(b: str, oa: int, ob: int) -> bool:
    a = P["a"]
    x = Note(a, oa)
    y = Note(b, ob)
    ia = 12 * oa + NAT[a[0]] + net(a)
    ib = 12 * ob + NAT[b[0]] + net(b)
    return (
        (x < y) == (ia < ib)
        and (x <= y) == (ia <= ib)
        and (x == y) == (ia == ib)
        and (x != y) == (ia != ib)
        and (x > y) == (ia > ib)
        and (x >= y) == (ia >= ib)
        and x.measure(y) == ib - ia
        and not (x == None)  # noqa: E711
        and (x != None)  # noqa: E711
    )


def c10_velocity(v: int) -> bool:
    n = Note("C", 4)
    if 0 <= v <= 127:
        n.set_velocity(v)
        m = Note("D", 3, velocity=v)
        return n.velocity == v and m.velocity == v and Note("E", 2, {"velocity": v}).velocity == v
    return raises_(ValueError, n.set_velocity, v) and raises_(ValueError, Note, "D", 3, None, v) and n.velocity == 64


def c10_channel(c: int) -> bool:
    n = Note("C", 4)
    if 0 <= c <= 15:
        n.set_channel(c)
        m = Note("D", 3, channel=c)
        return n.channel == c and m.channel == c
    return raises_(ValueError, n.set_channel, c) and raises_(ValueError, Note, "D", 3, None, None, c) and n.channel == 1


def c10_bad_name(s: str) -> bool:
    assume("-" not in s)
    assume(not T.is_name(s))
    return raises_((NoteFormatError, CNoteFormatError), Note, s)


def c10_helmholtz(name: str, o: int) -> bool:
    o = enum(o, 0, 10)
    n = Note(name, o)
    sh = n.to_shorthand()
    m = Note().from_shorthand(sh)
    return m.name == name and m.octave == o


STD = [440, 415, 432, 466.1637615180899, 442.5, 392]
DETUNE = [-40, -25, -3, 0, 3, 25, 40]


def c10_hertz(p: int, si: int, di: int) -> bool:
    p = enum(p, 0, 116)
    sp = pick(STD, si)
    cents = pick(DETUNE, di)
    n = Note(p)
    hz = n.to_hertz(sp)
    if p == 57 and abs(hz - sp) > 1e-9 * sp:
        return False
    up = Note(p + 12).to_hertz(sp)
    if abs(up - 2 * hz) > 1e-9 * up:
        return False
    back = Note().from_hertz(hz * 2 ** (cents / 1200.0), sp)
    return int(back) == p


def c10_hertz_spelled(ni: int, o: int, si: int) -> bool:
    """the Hz form depends on the pitch number only: every spelling of a pitch 0..127 converts to the frequency of
    that pitch number and reads back as the same pitch"""
    name = pick(NAMES35, ni)
    o = enum(o, 0, 11)
    sp = pick(STD, si)
    n = Note(name, o)
    p = 12 * o + NAT[name[0]] + net(name)
    assume(0 <= p <= 127)
    hz = n.to_hertz(sp)
    ref = Note(p).to_hertz(sp)
    if abs(hz - ref) > 1e-9 * ref:
        return False
    return int(Note().from_hertz(hz, sp)) == p


def c10_octave_floor(o: int, d: int) -> bool:
    n = Note("C", o)
    n.change_octave(d)
    return n.octave == max(0, o + d)


def claims(tier):
    q = tier == "quick"
    cl = []
    K = 2 if q else 3
    lo, hi = (0, 9) if q else (-50, 50)
    cl.append(Claim("int", c10_int, pre=[lambda name, o: spelled(name, K) and lo <= o <= hi], timeout=600 if q else 2400, bounds="name = letter + {#,b}^<=%d (symbolic); octave symbolic in %d..%d" % (K, lo, hi)))
    top = 127 if q else 10 ** 6
    cl.append(Claim("from_int", c10_from_int, pre=[lambda i: 0 <= i <= top], timeout=600, bounds="i: every integer in 0..%d (symbolic)" % top))
    cl.append(Claim("from_text", c10_from_text, pre=[lambda name, o: spelled(name, 1 if q else 2) and 0 <= o <= (9 if q else 99)], timeout=900 if q else 3000, bounds="name = letter + {#,b}^<=%d; octave 0..%d; 'Name-octave' text and printed form" % (1 if q else 2, 9 if q else 99)))
    cl.append(Claim("copy", c10_copy, pre=[lambda name, o, vel, ch: spelled(name, 1) and 0 <= o <= 9 and 0 <= vel <= 127 and 0 <= ch <= 15], timeout=900 if q else 3000, bounds="name = letter + {#,b}^<=1; octave, velocity 0..127, channel 0..15 symbolic"))
    names = [l + a for l in T.LETTERS for a in ("", "#", "b")] if q else NAMES35
    Kb = 1 if q else 2
    for a in names:
        cl.append(Claim("compare[a=%s]" % a, c10_compare, params={"a": a, "K": Kb}, group="c10_compare", pre=[lambda b, oa, ob: spelled(b, P["K"]) and 0 <= oa <= 9 and 0 <= ob <= 9], timeout=900 if q else 3000, bounds="a = %s; b = letter + {#,b}^<=%d (symbolic); both octaves symbolic 0..9; six operators and measure" % (a, Kb)))
    cl.append(Claim("velocity", c10_velocity, timeout=300, bounds="velocity: every integer (unbounded, symbolic)"))
    cl.append(Claim("channel", c10_channel, timeout=300, bounds="channel: every integer (unbounded, symbolic)"))
    cl.append(Claim("bad_name", c10_bad_name, pre=[lambda s: 1 <= len(s) <= (3 if q else 4)], timeout=900 if q else 3000, bounds="every unicode string of length 1..%d without '-' that is not letter+accidentals" % (3 if q else 4)))
    cl.append(Claim("helmholtz", c10_helmholtz, pre=[lambda name, o: spelled(name, 1 if q else 2) and 0 <= o <= 9], timeout=900 if q else 3000, bounds="name = letter + {#,b}^<=%d (symbolic); octave 0..9 (enumerated)" % (1 if q else 2)))
    cl.append(Claim("helmholtz_double", c10_helmholtz, pre=[lambda name, o: spelled(name, 2) and len(name) == 3 and name[1] == name[2] and 0 <= o <= 9], timeout=900 if q else 3000, bounds="name = letter + ## or bb (symbolic); octave 0..9 (enumerated)"))
    for si in range(len(STD) if not q else 2):
        cl.append(Claim("hertz[std=%s]" % STD[si], c10_hertz, params={"si": si}, group="c10_hertz", pre=[lambda p, si, di: 0 <= p <= 115 and si == P["si"] and 0 <= di < len(DETUNE)], timeout=900, bounds="note 0..115 (+12 for the octave clause, i.e. 0..127) x standard pitch %s x detune %r cents; concrete doubles (enumerated)" % (STD[si], DETUNE)))
    cl.append(Claim("hertz_spelled", c10_hertz_spelled, pre=[lambda ni, o, si: 0 <= ni < 35 and 0 <= o <= 10 and 0 <= si < (2 if q else len(STD))], timeout=900, bounds="35 spellings (<=2 accidentals) x octave 0..10 with pitch in 0..127 x %d standard pitches; concrete doubles (enumerated)" % (2 if q else len(STD))))
    cl.append(Claim("octave_floor", c10_octave_floor, pre=[lambda o: 0 <= o], timeout=300, bounds="octave >= 0 and diff: every integer (unbounded, symbolic)"))
    return cl
