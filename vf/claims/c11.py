"""C11  Transposition at note and container level (note.py, note_container.py, bar.py, track.py)."""
from vf.claim import Claim, assume, enum, fork, pick, raises_, real, warm_cold
from vf.ref import theory as T
from vf.ref.theory import MAJOR_SIZE, NAT, net, pc, spelled, unmixed

from mingus.containers import Bar, Note, NoteContainer, Track

P = {}
ASSUMPTIONS = [
    "reference: pitch number = 12*octave + natural + sharps - flats; interval size = major size of the degree + sharps - flats of the shorthand prefix",
    "lifting claims: the expected result is obtained by applying the Note-level operation (itself checked by the note claims) to an independent copy of every note",
]
OUTSIDE = ["intervals whose size is outside 0..11 semitones", "names with more accidentals than the stated K", "octaves outside the stated range", "container shapes other than the listed ones"]


def _pitch(name, o):
    return 12 * o + NAT[name[0]] + net(name)


def c11_note(name: str, o: int, acc: str, up: bool) -> bool:
    deg = P["deg"]
    sh = acc + str(deg)
    size = MAJOR_SIZE[deg - 1] + net("x" + acc)
    assume(0 <= size <= 11)
    up = fork(up)
    n = Note(name, o)
    before = _pitch(name, o)
    n.transpose(sh, up)
    want_letter = T.letter_up(name[0], (deg - 1) if up else -(deg - 1))
    if n.name[0] != want_letter:
        return False
    if int(n) != before + (size if up else -size) or _pitch(n.name, n.octave) != int(n):
        return False
    n.transpose(sh, not up)
    if unmixed(name):
        return n.name == name and n.octave == o
    return n.name[0] == name[0] and int(n) == before


PRIOR = [("C", "#4", False), ("C#", "4", False), ("Cb", "5", True), ("F#", "b7", False), ("B", "2", True), ("E", "#1", False), ("Gb", "6", False), ("C", "b4", False)]


def c11_history(pi: int, name: str, o: int, acc: str, up: bool) -> bool:
    """a transposition gives the same result whatever was transposed before it (the result in the initial state of
    all module-level state); prior call from a list of representative ones, the query fully symbolic"""
    deg = P["deg"]
    pn, ps, pu = pick(PRIOR, pi)
    sh = acc + str(deg)
    size = MAJOR_SIZE[deg - 1] + net("x" + acc)
    assume(0 <= size <= 11)
    up = fork(up)

    def prior():
        Note(pn, 4).transpose(ps, pu)

    def query():
        n = Note(name, o)
        n.transpose(sh, up)
        return (n.name, n.octave)

    return warm_cold(prior, query)


def c11_octave_floor(o: int, d: int) -> bool:
    n = Note("C", o)
    n.change_octave(d)
    ok = n.octave == max(0, o + d)
    m = Note("E", 0)
    m.octave_down()
    return ok and m.octave == 0


POOL = ["C", "B#", "Cb", "F#", "Bb", "E", "G##", "Abb"]
OPS = [("T", "3"), ("T", "#1"), ("T", "#4"), ("T", "7"), ("T", "1"), ("T", "b2"), ("T", "bb7"), ("A", None), ("D", None), ("AD", None), ("T", "b3"), ("T", "b1"), ("T", "##1")]


def _snap_nc(nc):
    return [(x.name, x.octave, x.velocity, x.channel) for x in nc]


def _snap_bar(b):
    return [[e[0], e[1], None if e[2] is None else _snap_nc(e[2])] for e in b.bar]


def _apply_note(t, op, arg, up):
    name, o, v, c = t
    n = Note(name, o)
    if op == "T":
        n.transpose(arg, up)
    elif op == "A":
        n.augment()
    elif op == "D":
        n.diminish()
    return (n.name, n.octave, v, c)


def _expect_nc(s, op, arg, up):
    return [_apply_note(t, op, arg, up) for t in s]


def _expect_bar(s, op, arg, up):
    return [[e[0], e[1], None if e[2] is None else _expect_nc(e[2], op, arg, up)] for e in s]


def _do(obj, op, arg, up):
    if op == "T":
        obj.transpose(arg, up)
    elif op == "A":
        obj.augment()
    elif op == "D":
        obj.diminish()


def c11_lift(i1: int, i2: int, i3: int, o1: int, o2: int, o3: int, opi: int, up: bool) -> bool:
    shape = P["shape"]
    n1, n2, n3 = pick(POOL, i1), pick(POOL, i2), pick(POOL, i3)
    op, arg = pick(OPS, opi)
    up = fork(up)
    A, B, C = Note(n1, o1), Note(n2, o2, velocity=99, channel=3), Note(n3, o3)
    if shape.startswith("nc"):
        k = int(shape[2])
        nc = NoteContainer([A, B, C][:k])
        before = _snap_nc(nc)
        if op == "AD":
            nc.augment()
            nc.diminish()
            return _snap_nc(nc) == before
        _do(nc, op, arg, up)
        return _snap_nc(nc) == _expect_nc(before, op, arg, up)
    if shape in ("bar_a", "bar_b"):
        b = Bar("C", (4, 4))
        if shape == "bar_a":
            b.place_rest(4)
            b.place_notes(NoteContainer([A, B]), 4)
            b.place_notes(C, 2)
        else:
            b.place_notes(A, 8)
            b.place_rest(8)
            b.place_notes(NoteContainer([B, C]), 4)
            b.place_rest(2)
        before = _snap_bar(b)
        cb = b.current_beat
        if op == "AD":
            b.augment()
            b.diminish()
            return _snap_bar(b) == before
        _do(b, op, arg, up)
        return _snap_bar(b) == _expect_bar(before, op, arg, up) and b.current_beat == cb and len(b) == len(before)
    t = Track()
    t.add_notes(A, 2)
    t.add_notes(None, 4)
    t.add_notes(NoteContainer([B, C]), 4)
    t.add_notes(Note(n3, o3), 4)
    t.add_notes(None, 2)
    before = [_snap_bar(b) for b in t.bars]
    if len(before) != 2:
        return False
    if op == "AD":
        t.augment()
        t.diminish()
        return [_snap_bar(b) for b in t.bars] == before
    _do(t, op, arg, up)
    return [_snap_bar(b) for b in t.bars] == [_expect_bar(s, op, arg, up) for s in before]


def claims(tier):
    q = tier == "quick"
    cl = []
    K = 1 if q else 2
    for deg in range(1, 8):
        cl.append(Claim("history[deg=%d]" % deg, c11_history, params={"deg": deg}, group="c11_history", pre=[lambda pi, name, o, acc: 0 <= pi < (2 if q else len(PRIOR)) and spelled(name, 1) and 2 <= o <= 6 and spelled("C" + acc, 1)], timeout=900 if q else 3000, bounds="prior: %d representative transpositions; query: name = letter + {#,b}^<=1, octave 2..6, shorthand {#,b}^<=1 + '%d', up and down (symbolic)" % (2 if q else len(PRIOR), deg)))
        cl.append(Claim("note[deg=%d]" % deg, c11_note, params={"deg": deg, "K": K}, pre=[lambda name, o, acc: spelled(name, P["K"]) and 1 <= o <= 8 and spelled("C" + acc, 2)], timeout=900 if q else 3000, bounds="name = letter + {#,b}^<=%d; octave 1..8 symbolic; shorthand {#,b}^<=2 + '%d' restricted to size 0..11; up and down; up-then-down" % (K, deg)))
    cl.append(Claim("octave_floor", c11_octave_floor, pre=[lambda o: 0 <= o], timeout=300, bounds="octave >= 0, diff: every integer (unbounded)"))
    shapes = ["nc1", "nc2", "nc3", "bar_a", "bar_b", "track"]
    npool = 4 if q else len(POOL)
    for shape in shapes:
        for opi in range(len(OPS)):
            if q and opi in (2, 3, 5):
                continue
            cl.append(
                Claim(
                    "lift[%s,op=%s%s]" % (shape, OPS[opi][0], OPS[opi][1] or ""),
                    c11_lift,
                    params={"shape": shape, "opi": opi, "npool": npool},
                    group="c11_lift",
                    pre=[lambda i1, i2, i3, o1, o2, o3, opi: 0 <= i1 < P["npool"] and 0 <= i2 < P["npool"] and 0 <= i3 < (P["npool"] if P["shape"] not in ("nc1", "nc2") else 1) and (0 <= i2 < (P["npool"] if P["shape"] != "nc1" else 1)) and 1 <= o1 <= 7 and 1 <= o2 <= 7 and 1 <= o3 <= 7 and opi == P["opi"]],
                    timeout=900 if q else 3000,
                    bounds="shape %s; names from %r (realised); three octaves symbolic 1..7; op %r; direction both" % (shape, POOL[:npool], OPS[opi]),
                )
            )
    return cl
