"""C12  NoteContainer as a pitch-ordered duplicate-free set (containers/note_container.py).

Inductive step (DESIGN 2.3): the pre-state is ANY container satisfying the representation invariant
(k notes, strictly increasing pitch; names from a pool that contains every octave-boundary spelling,
octaves symbolic), built directly; one operation with symbolic arguments is applied; the post-state must be
what the set model predicts and must satisfy the invariant again.  The base case is the empty container.
Together this covers operation histories of every length over the stated name pool."""
from vf.claim import Claim, assume, enum, fork, pick, raises_, real, symbolic_mode
from vf.ref import chords as RC
from vf.ref import theory as T
from vf.ref.theory import NAT, net, pc

from mingus.containers import Note, NoteContainer
from mingus.core import intervals

P = {}
ASSUMPTIONS = [
    "set model: a container is a list of (name, octave) sorted by pitch number with no two equal pitches; adding a pitch already present keeps the existing note",
    "bare-name voicing model: the new note takes the unique octave that puts it at or above the previous top note and less than 12 semitones above it",
    "inductive pre-states are built directly from the representation invariant (k <= stated size, strictly increasing pitch numbers)",
]
OUTSIDE = ["names outside the stated pool", "pre-states larger than the stated size", "__setitem__ (not in the property)", "string arguments to 'in'"]
POOL = ["C", "B#", "Cb", "B", "F#", "Gb", "E", "Bbb"]
POOL_T = POOL + ["D", "A", "G", "F", "Eb", "C#", "E#", "Fb", "B##", "Cbb", "Ab", "D#", "Db"]


def _p(name, o):
    return 12 * o + NAT[name[0]] + net(name)


def _pre(names, octs):
    """container in an arbitrary valid state + its model; assumes the invariant"""
    model = [(n, o) for n, o in zip(names, octs)]
    for i in range(len(model) - 1):
        assume(_p(*model[i]) < _p(*model[i + 1]))
    nc = NoteContainer()
    nc.notes = [Note(n, o) for n, o in model]
    return nc, model


def _respell(name, o):
    """another spelling of the same pitch (harness bookkeeping on the concrete name; the octave may be symbolic)"""
    v = NAT[name[0]] + net(name)
    for l in T.LETTERS:
        for a in ("", "#", "b", "##", "bb"):
            v2 = NAT[l] + net(l + a)
            if l + a != name and (v - v2) % 12 == 0:
                return l + a, o + (v - v2) // 12
    raise AssertionError(name)


def _state(nc):
    return [(x.name, x.octave) for x in nc.notes]


def _inv(nc):
    ps = [int(x) for x in nc.notes]
    for i in range(len(ps) - 1):
        if not ps[i] < ps[i + 1]:
            return False
    return True


def _m_add(model, name, o):
    p = _p(name, o)
    for n2, o2 in model:
        if _p(n2, o2) == p:
            return list(model)
    out = list(model) + [(name, o)]
    out.sort(key=lambda t: _p(*t))
    return out


def _m_bare_octave(model, name):
    if not model:
        return 4
    top = _p(*model[-1])
    off = NAT[name[0]] + net(name)
    # unique octave o with top <= 12*o + off < top + 12
    o = (top - off + 11) // 12
    return o


def known_voicing(names, octs, new):
    """repo voices relative to the top note's octave number: off by an octave when the in-octave offsets of
    the new name and the top note differ by 12 or more (B#/B## against C/Cb-type tops and vice versa)"""
    if len(names) == 0:
        return False
    offT = NAT[names[-1][0]] + net(names[-1])
    off = NAT[new[0]] + net(new)
    return off - offT >= 12 or off - offT < -12


def _names(k, i1, i2, i3):
    pool = P["pool"]
    return [pick(pool, x) for x in (i1, i2, i3)[:k]]


def c12_add_bare(i1: int, i2: int, i3: int, o1: int, o2: int, o3: int, j: int) -> bool:
    k = P["k"]
    names = _names(k, i1, i2, i3)
    octs = [o1, o2, o3][:k]
    new = pick(P["pool"], j)
    if P.get("exclude_known", True):
        assume(not known_voicing(names, octs, new))
    nc, model = _pre(names, octs)
    r = nc.add_note(new)
    o = _m_bare_octave(model, new)
    if model:
        top = _p(*model[-1])
        if not (top <= _p(new, o) < top + 12):
            return False
    return _state(nc) == _m_add(model, new, o) and _inv(nc) and r is nc.notes


def c12_add_explicit(i1: int, i2: int, i3: int, o1: int, o2: int, o3: int, j: int, oj: int, form: int) -> bool:
    k = P["k"]
    names = _names(k, i1, i2, i3)
    octs = [o1, o2, o3][:k]
    new = pick(P["pool"], j)
    form = enum(form, 0, 5)
    nc, model = _pre(names, octs)
    if form == 0:
        nc.add_note(new, oj)
    elif form == 1:
        nc.add_note(Note(new, oj))
    elif form == 2:
        nc.add_notes([[new, oj]])
    elif form == 3:
        nc.add_notes(Note(new, oj))
    else:
        r = nc + Note(new, oj)
        if r is not nc:
            return False
    return _state(nc) == _m_add(model, new, oj) and _inv(nc)


def c12_add_many(i1: int, i2: int, o1: int, o2: int, j1: int, j2: int, q1: int, q2: int, form: int) -> bool:
    """lists, other containers, '+', mixed element forms: equal to adding the elements one by one"""
    names = _names(2, i1, i2, 0)
    octs = [o1, o2]
    a, b = pick(P["pool"], j1), pick(P["pool"], j2)
    form = enum(form, 0, 5)
    nc, model = _pre(names, octs)
    exp = _m_add(_m_add(model, a, q1), b, q2)
    if form == 0:
        nc.add_notes([Note(a, q1), Note(b, q2)])
    elif form == 1:
        nc.add_notes([[a, q1], [b, q2]])
    elif form == 2:
        other = NoteContainer()
        other.notes = [Note(a, q1), Note(b, q2)]
        nc.add_notes(other)
    elif form == 3:
        nc + [Note(a, q1), [b, q2]]
    else:
        other = NoteContainer()
        other.notes = [Note(a, q1), Note(b, q2)]
        nc + other
    return _state(nc) == exp and _inv(nc)


def c12_add_bare_list(j1: int, j2: int, j3: int) -> bool:
    """base case + voicing upward from an empty container: bare names given in order"""
    pool = P["pool"]
    ns = [pick(pool, j1), pick(pool, j2), pick(pool, j3)]
    model = []
    for n in ns:
        if P.get("exclude_known", True):
            assume(not known_voicing([m[0] for m in model], None, n))
        model = _m_add(model, n, _m_bare_octave(model, n))
    nc = NoteContainer(list(ns))
    nc2 = NoteContainer()
    nc2 + list(ns)
    return _state(nc) == model and _inv(nc) and _state(nc2) == model and (not model or model[0] == (ns[0], 4) or _p(*model[0]) < _p(ns[0], 4))


def c12_remove(i1: int, i2: int, i3: int, o1: int, o2: int, o3: int, j: int, oj: int, form: int) -> bool:
    k = P["k"]
    names = _names(k, i1, i2, i3)
    octs = [o1, o2, o3][:k]
    tgt = pick(P["pool"], j)
    form = enum(form, 0, 6)
    nc, model = _pre(names, octs)
    if form == 0:
        nc.remove_note(tgt)
        exp = [m for m in model if m[0] != tgt]
    elif form == 1:
        nc.remove_note(tgt, oj)
        exp = [m for m in model if not (m[0] == tgt and m[1] == oj)]
    elif form == 2:
        nc.remove_note(Note(tgt, oj))
        exp = [m for m in model if _p(*m) != _p(tgt, oj)]
    elif form == 3:
        nc.remove_notes([tgt, Note(pick(P["pool"], (j + 1) % len(P["pool"])), oj)])
        other = pick(P["pool"], (j + 1) % len(P["pool"]))
        exp = [m for m in model if m[0] != tgt and _p(*m) != _p(other, oj)]
    elif form == 4:
        r = nc - tgt
        if r is not nc:
            return False
        exp = [m for m in model if m[0] != tgt]
    else:
        nc - Note(tgt, oj)
        exp = [m for m in model if _p(*m) != _p(tgt, oj)]
    return _state(nc) == exp and _inv(nc)


def c12_queries(i1: int, i2: int, i3: int, o1: int, o2: int, o3: int, j: int, oj: int, f: bool) -> bool:
    k = P["k"]
    names = _names(k, i1, i2, i3)
    octs = [o1, o2, o3][:k]
    probe = pick(P["pool"], j)
    nc, model = _pre(names, octs)
    if len(nc) != len(model):
        return False
    if (Note(probe, oj) in nc) != any(_p(*m) == _p(probe, oj) for m in model):
        return False
    uniq = []
    for m in model:
        if m[0] not in uniq:
            uniq.append(m[0])
    if nc.get_note_names() != uniq:
        return False
    same, _ = _pre(names, octs)
    if not (nc == same):
        return False
    other = NoteContainer()
    other.notes = [Note(n, o) for n, o in model] + [Note("C", 40)]
    if nc == other:
        return False
    if k >= 1:
        shifted = NoteContainer()
        shifted.notes = [Note(n, o) for n, o in model[:-1]] + [Note(model[-1][0], model[-1][1] + 1)]
        if nc == shifted:
            return False
    if k >= 1:
        # equality is about the pitches held, not their spelling
        resp = [_respell(n, o) for n, o in model]
        if all(o >= 0 for _, o in resp):
            enh = NoteContainer()
            enh.notes = [Note(n, o) for n, o in resp]
            if not (nc == enh) or not (enh == nc):
                return False
    pairs = [(model[a][0], model[b][0]) for a in range(len(model)) for b in range(a + 1, len(model))]

    def m(a, b):
        return (pc(b) - pc(a)) % 12

    perf = all(m(a, b) in (0, 7) or (f and m(a, b) == 5) for a, b in pairs)
    imp = all(m(a, b) in (3, 4, 8, 9) for a, b in pairs)
    cons = all((m(a, b) in (0, 7) or (f and m(a, b) == 5)) or m(a, b) in (3, 4, 8, 9) for a, b in pairs)
    cons_nf = all((m(a, b) in (0, 7) or ((not f) and m(a, b) == 5)) or m(a, b) in (3, 4, 8, 9) for a, b in pairs)
    return bool(nc.is_perfect_consonant(f)) == perf and bool(nc.is_imperfect_consonant()) == imp and bool(nc.is_consonant(f)) == cons and bool(nc.is_dissonant(f)) == (not cons_nf)


def c12_api_history(i1: int, i2: int, o1: int, o2: int, j: int, rm: int, form: int) -> bool:
    """a history through the public API only (no directly built pre-state): two explicit additions, one removal
    (by name / name and octave / Note / '-'), then a bare name, against the set model and the voicing rule"""
    n1 = pick(POOL, i1)
    n2 = pick(POOL, i2)
    new = pick(POOL, j)
    assume(_p(n1, o1) < _p(n2, o2))
    nc = NoteContainer()
    nc.add_note(n1, o1)
    nc.add_note(Note(n2, o2))
    model = [(n1, o1), (n2, o2)]
    if _state(nc) != model:
        return False
    rm = enum(rm, 0, 2)
    vn, vo = model[rm]
    form = enum(form, 0, 4)
    if form == 0:
        nc.remove_note(vn)
        model = [m for m in model if m[0] != vn]
    elif form == 1:
        nc.remove_note(vn, vo)
        model = [m for m in model if not (m[0] == vn and m[1] == vo)]
    elif form == 2:
        nc.remove_note(Note(vn, vo))
        model = [m for m in model if _p(*m) != _p(vn, vo)]
    else:
        nc - Note(vn, vo)
        model = [m for m in model if _p(*m) != _p(vn, vo)]
    if _state(nc) != model:
        return False
    if P.get("exclude_known", True) and model:
        assume(not known_voicing([m[0] for m in model], [m[1] for m in model], new))
    nc.add_note(new)
    o = _m_bare_octave(model, new)
    return _state(nc) == _m_add(model, new, o) and _inv(nc)


def c12_eq_enharmonic(j1: int, j2: int, o1: int, o2: int) -> bool:
    """two containers holding the same pitch under different spellings are equal (both ways), and 'in' agrees.
    Engine premise discharged here: CrossHair models a set of objects by __eq__ alone, so when Note is hashable the
    claim also demands hash(a) == hash(b) for equal notes - otherwise a set/dict based equality in the repo would be
    invisible to the symbolic run (the replay runs the real sets and decides whether the property is affected)."""
    n1 = pick(POOL_T, j1)
    n2 = pick(POOL_T, j2)
    assume(_p(n1, o1) == _p(n2, o2))
    a, b = Note(n1, o1), Note(n2, o2)
    A, B = NoteContainer(), NoteContainer()
    A.notes = [Note("C", 0), a]
    B.notes = [Note("C", 0), b]
    assume(_p(n1, o1) > 0)
    if not (A == B) or not (B == A) or A != B or a not in B or b not in A:
        return False
    if symbolic_mode() and type(a).__hash__ is not None:
        return hash(a) == hash(b)
    return True


def c12_consonance(i1: int, i2: int, i3: int, i4: int, f: bool) -> bool:
    """consonance predicates == for-all-pairs of the pairwise predicate, on containers of 3 and 4 notes
    (octaves 1, 3, 5, 7 keep the pitches increasing for every spelling in the pool)"""
    pool = P["pool"]
    k = P["k"]
    names = [pick(pool, x) for x in (i1, i2, i3, i4)[:k]]
    nc = NoteContainer()
    nc.notes = [Note(n, 1 + 2 * j) for j, n in enumerate(names)]
    pairs = [(names[a], names[b]) for a in range(k) for b in range(a + 1, k)]

    def m(a, b):
        return (pc(b) - pc(a)) % 12

    f = fork(f)
    perf = all(m(a, b) in (0, 7) or (f and m(a, b) == 5) for a, b in pairs)
    imp = all(m(a, b) in (3, 4, 8, 9) for a, b in pairs)
    cons = all((m(a, b) in (0, 7) or (f and m(a, b) == 5)) or m(a, b) in (3, 4, 8, 9) for a, b in pairs)
    cons_nf = all((m(a, b) in (0, 7) or ((not f) and m(a, b) == 5)) or m(a, b) in (3, 4, 8, 9) for a, b in pairs)
    return bool(nc.is_perfect_consonant(f)) == perf and bool(nc.is_imperfect_consonant()) == imp and bool(nc.is_consonant(f)) == cons and bool(nc.is_dissonant(f)) == (not cons_nf)


ROOTS = [l + a for l in T.LETTERS for a in ("", "#", "b")]
CH = sorted(RC.FORMULAS)


def c12_from_chord(ri: int, si: int) -> bool:
    root = pick(ROOTS, ri)
    sh = pick(P["chords"], si)
    nc = NoteContainer().from_chord_shorthand(root + sh)
    names = RC.build(root, sh)
    model = []
    for n in names:
        model = _m_add(model, n, _m_bare_octave(model, n))
    st = _state(nc)
    if st != model or not _inv(nc):
        return False
    if st[0] != (root, 4):
        return False
    return [s[0] for s in st] == names or len(st) < len(names)


def c12_from_interval(ri: int, o: int, si: int, up: bool) -> bool:
    root = pick(ROOTS, ri)
    sh = pick(["1", "b2", "2", "b3", "3", "4", "#4", "5", "b6", "6", "b7", "7"], si)
    up = fork(up)
    nc = NoteContainer().from_interval_shorthand(Note(root, o), sh, up)
    size = T.MAJOR_SIZE[int(sh[-1]) - 1] + net("x" + sh[:-1])
    lo = _p(root, o)
    other = lo + size if up else lo - size
    ps = sorted(set([lo, other]))
    return [int(x) for x in nc.notes] == ps and _inv(nc)


def c12_from_progression(ki: int, d: int, seven: bool) -> bool:
    key = pick(T.MAJOR_KEYS + T.MINOR_KEYS, ki)
    d = enum(d, 0, 7)
    num = ["I", "II", "III", "IV", "V", "VI", "VII"][d] + ("7" if seven else "")
    kn = T.key_notes(T.key_tonic(key), T.key_is_minor(key))
    names = [kn[(d + 2 * i) % 7] for i in range(4 if seven else 3)]
    nc = NoteContainer().from_progression_shorthand(num, key)
    model = []
    for n in names:
        model = _m_add(model, n, _m_bare_octave(model, n))
    return _state(nc) == model and _state(nc)[0] == (names[0], 4) and [s[0] for s in _state(nc)] == names


def claims(tier):
    q = tier == "quick"
    pool = POOL if q else POOL_T
    np_ = len(pool)
    cl = []
    ks = (0, 1, 2) if q else (0, 1, 2, 3)
    OL, OH = 1, 8

    def pre_k(k):
        def f(i1, i2, i3, o1, o2, o3):
            ok = True
            for idx, (i, o) in enumerate(((i1, o1), (i2, o2), (i3, o3))):
                if idx < k:
                    ok = ok and 0 <= i < np_ and OL <= o <= OH
                else:
                    ok = ok and i == 0 and o == 0
            return ok

        return f

    for k in ks:
        # thorough: k <= 2 over the 21-name pool, sharded by the first pre-state name; k == 3 over the first six
        # boundary spellings, sharded by the first name, for the operations whose outcome depends on all notes
        kpool = pool if k < 3 else pool[:6]
        npk = len(kpool)
        par = {"k": k, "pool": kpool}
        b = "pre-state: %d notes, names from %r (enumerated), octaves symbolic %d..%d, strictly increasing pitch" % (k, kpool, OL, OH)
        shard = (not q and k == 2) or k == 3
        sh = [None] if not shard else list(range(npk))
        for s0 in sh:
            tag = "" if s0 is None else ",i1=%d" % s0
            extra = (lambda i1: True) if s0 is None else (lambda i1, s0=s0: i1 == s0)

            def prek(k=k, npk=npk):
                def f(i1, i2, i3, o1, o2, o3):
                    ok = True
                    for idx, (i, o) in enumerate(((i1, o1), (i2, o2), (i3, o3))):
                        if idx < k:
                            ok = ok and 0 <= i < npk and OL <= o <= OH
                        else:
                            ok = ok and i == 0 and o == 0
                    return ok

                return f

            cl.append(Claim("add_bare[k=%d%s]" % (k, tag), c12_add_bare, params=par, group="c12_add_bare", pre=[prek(), extra, lambda j, npk=npk: 0 <= j < npk], timeout=1200 if q else 3000, bounds=b + "; op add_note(bare name from the pool)"))
            for fm in range(5):
                if k == 3 and fm not in (0, 1):
                    continue
                cl.append(Claim("add_explicit[k=%d%s,form=%d]" % (k, tag, fm), c12_add_explicit, params=par, pre=[prek(), extra, lambda j, oj, form, fm=fm, npk=npk: 0 <= j < npk and 0 <= oj <= 9 and form == fm], timeout=1200 if q else 3000, bounds=b + "; op %s, octave symbolic 0..9" % ["add_note(name, octave)", "add_note(Note)", "add_notes([[name, oct]])", "add_notes(Note)", "+ Note"][fm]))
            for fm in range(6):
                if k == 3 and fm not in (0, 1, 2):
                    continue
                cl.append(Claim("remove[k=%d%s,form=%d]" % (k, tag, fm), c12_remove, params=par, pre=[prek(), extra, lambda j, oj, form, fm=fm, npk=npk: 0 <= j < npk and 0 <= oj <= 9 and form == fm], timeout=1200 if q else 3000, bounds=b + "; op %s" % ["remove_note(name)", "remove_note(name, octave)", "remove_note(Note)", "remove_notes([name, Note])", "- name", "- Note"][fm]))
            if k < 3:
                cl.append(Claim("queries[k=%d%s]" % (k, tag), c12_queries, params=par, pre=[prek(), extra, lambda j, oj, npk=npk: 0 <= j < npk and 0 <= oj <= 9], timeout=1200 if q else 3000, bounds=b + "; len, in, ==, get_note_names, four consonance predicates (flag symbolic)"))
    par = {"k": 2, "pool": pool[:3] if q else pool[:6]}
    npp = len(par["pool"])
    for fm in range(5):
        cl.append(Claim("add_many[form=%d]" % fm, c12_add_many, params=par, group="c12_add_many", pre=[lambda i1, i2, o1, o2, j1, j2, q1, q2, form, fm=fm: 0 <= i1 < npp and 0 <= i2 < npp and 1 <= o1 <= 8 and 1 <= o2 <= 8 and 0 <= j1 < npp and 0 <= j2 < npp and 0 <= q1 <= 9 and 0 <= q2 <= 9 and form == fm], timeout=1200 if q else 3000, bounds="pre-state 2 notes; two added notes (names from %r, octaves symbolic) given as %s" % (par["pool"], ["list of Notes", "[name, oct] pairs", "container", "'+' list of mixed forms", "'+' container"][fm])))
    cl.append(Claim("add_bare_list", c12_add_bare_list, params={"pool": pool}, group="c12_add_bare_list", pre=[lambda j1, j2, j3: 0 <= j1 < np_ and 0 <= j2 < np_ and 0 <= j3 < np_], timeout=1200 if q else 3000, bounds="NoteContainer([n1, n2, n3]) and '+' from empty, bare names from %r" % (pool,)))
    cpool = ["C", "E", "F", "G", "A", "B#", "Eb", "F#"] if q else ["C", "D", "E", "F", "G", "A", "B", "B#", "Eb", "F#", "Cb", "Ab"]
    for i0 in range(len(cpool)):
        cl.append(Claim("consonance3[%s]" % cpool[i0], c12_consonance, params={"pool": cpool, "k": 3, "i0": i0}, group="c12_consonance", pre=[lambda i1, i2, i3, i4: i1 == P["i0"] and 0 <= i2 < len(P["pool"]) and 0 <= i3 < len(P["pool"]) and i4 == 0], timeout=1200 if q else 3000, bounds="three-note containers, first name %s, other names from %r: four consonance predicates == for all pairs" % (cpool[i0], cpool)))
    if not q:
        for i0 in range(len(cpool)):
            cl.append(Claim("consonance4[%s]" % cpool[i0], c12_consonance, params={"pool": cpool, "k": 4, "i0": i0}, group="c12_consonance", pre=[lambda i1, i2, i3, i4: i1 == P["i0"] and 0 <= i2 < 6 and 0 <= i3 < len(P["pool"]) and 0 <= i4 < len(P["pool"])], timeout=3000, bounds="four-note containers, first name %s" % cpool[i0]))
    for fm in range(4):
        cl.append(Claim("api_history[form=%d]" % fm, c12_api_history, params={"fm": fm}, group="c12_api_history", pre=[lambda i1, i2, o1, o2, j, rm, form: 0 <= i1 < len(POOL) and 0 <= i2 < len(POOL) and 0 <= j < len(POOL) and 1 <= o1 <= 7 and 1 <= o2 <= 7 and 0 <= rm < 2 and form == P["fm"]], timeout=1200 if q else 3000, bounds="public API only: add (name, octave), add Note, remove one of the two (form %d of: name / name+octave / Note / '-'), add a bare name; 8-name pool, octaves symbolic 1..7" % fm))
    cl.append(Claim("eq_enharmonic", c12_eq_enharmonic, pre=[lambda j1, j2, o1, o2: 0 <= j1 < len(POOL_T) and 0 <= j2 < len(POOL_T) and 0 <= o1 <= 9 and 0 <= o2 <= 9], timeout=900 if q else 2400, bounds="two spellings from the 21-name pool (enumerated) with symbolic octaves 0..9 naming the same pitch: ==, != and 'in' both ways; hash consistency when Note is hashable"))
    cl.append(Claim("probe_add_bare", c12_add_bare, params={"k": 1, "pool": POOL_T, "exclude_known": False}, group="c12_add_bare", pre=[], probe_only=True))
    cl.append(Claim("probe_add_bare_list", c12_add_bare_list, params={"pool": POOL_T, "exclude_known": False}, group="c12_add_bare_list", pre=[], probe_only=True))
    step = 13 if q else 9
    chs = CH if not q else CH[::2]
    for lo in range(0, len(chs), step):
        sub = chs[lo : lo + step]
        cl.append(Claim("from_chord[%d-%d]" % (lo, lo + len(sub) - 1), c12_from_chord, params={"chords": sub}, pre=[lambda ri, si: 0 <= ri < (7 if q else 21) * (3 if q else 1) and 0 <= si < len(P["chords"])], timeout=1200 if q else 3000, bounds="from_chord_shorthand: roots %s x shorthands %r" % ("21 names" if True else "", sub)))
    cl.append(Claim("from_interval", c12_from_interval, pre=[lambda ri, o, si: 0 <= ri < 21 and 1 <= o <= 8 and 0 <= si < 12], timeout=1200 if q else 3000, bounds="from_interval_shorthand: 21 start names, octave symbolic 1..8, 12 shorthands, up and down"))
    cl.append(Claim("from_progression", c12_from_progression, pre=[lambda ki, d: 0 <= ki < 30 and 0 <= d < 7], timeout=1200 if q else 3000, bounds="from_progression_shorthand: 30 keys x 7 numerals x {triad, 7}"))
    return cl
