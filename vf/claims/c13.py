"""C13  Bar time accounting (containers/bar.py, core/meter.py)."""
from fractions import Fraction

from vf.claim import Claim, assume, enum, fork, pick, raises_, real, symbolic_mode
from vf.ref import theory as T

from mingus.containers import Bar, Note, NoteContainer
from mingus.containers.mt_exceptions import MeterFormatError
from mingus.core import value

P = {}
L = 215040  # lcm of the denominators of every vocabulary length 1/v
K_MAX = 4096
ASSUMPTIONS = [
    "inductive step over an arbitrary reachable accounting state: the running float total is an error-bounded abstract double (vf/absfloat.py: exact real + per-operation error |e| <= 2^-47, magnitudes < 64), constrained only by the invariant |current_beat - t/L| <= k*2^-46 with t the exact total in units of 1/215040 and k <= 4096 operations so far; sound over-approximation of binary64 RNE, so it cannot miss a real refusal/acceptance error",
    "each vocabulary value's double 1.0/v is checked (when the claim list is built) to lie within 2^-49 of its nominal rational length",
    "literal-history claims run the real float code on concrete doubles (histories enumerated by the solver) and tie the abstract step to real executions",
    "set_meter: rejection by any exception counts as rejected (the library formats its MeterFormatError message with a tuple and raises TypeError for most bad meters)",
]
OUTSIDE = ["note values outside the documented vocabulary", "more than 4096 operations on one bar", "totals of 64 whole notes or more", "float beat units in set_meter other than the listed ones"]


def _vocab():
    out = []
    for b in [1, 2, 4, 8, 16, 32, 64, 128]:
        out.append((float(b), Fraction(1, b)))
        for d in (1, 2, 3, 4):
            out.append((value.dots(b, d), Fraction(1, b) * (2 - Fraction(1, 2 ** d))))
        out.append((value.triplet(b), Fraction(2, 3 * b)))
        out.append((value.quintuplet(b), Fraction(4, 5 * b)))
        out.append((value.septuplet(b), Fraction(4, 7 * b)))
    for fv, ex in out:
        assert (ex * L).denominator == 1, (fv, ex)
        assert abs(Fraction(1.0 / fv) - ex) <= Fraction(1, 2 ** 49), (fv, ex)
    return out


V = _vocab()
METERS = [(4, 4), (3, 4), (6, 8), (12, 8), (5, 4), (7, 8), (2, 2), (9, 8), (1, 1), (2, 4), (15, 16), (0, 0)]


def _mk_state(b, t, k):
    """install an arbitrary accounting state satisfying the invariant; returns the abstract current_beat"""
    import z3
    from crosshair.core_and_libs import NoTracing
    from crosshair.libimpl.builtinslib import SymbolicInt
    from vf.absfloat import EF, constrain

    cb = EF.fresh("cb")
    with NoTracing():
        tv = t.var if isinstance(t, SymbolicInt) else z3.IntVal(t)
        kv = k.var if isinstance(k, SymbolicInt) else z3.IntVal(k)
        w = z3.ToReal(kv) * z3.Q(1, 2 ** 46)
        T_ = z3.ToReal(tv) / L
        constrain(z3.And(cb.r - T_ <= w, T_ - cb.r <= w))
    b.current_beat = cb
    return cb


def _inv_holds(cb, t_new, k_new):
    import z3
    from crosshair.core_and_libs import NoTracing
    from crosshair.libimpl.builtinslib import SymbolicBool, SymbolicInt

    with NoTracing():
        tv = t_new.var if isinstance(t_new, SymbolicInt) else z3.IntVal(t_new)
        kv = k_new.var if isinstance(k_new, SymbolicInt) else z3.IntVal(k_new)
        w = z3.ToReal(kv) * z3.Q(1, 2 ** 46)
        T_ = z3.ToReal(tv) / L
        return SymbolicBool(z3.And(cb.r - T_ <= w, T_ - cb.r <= w))


def c13_step_place(vi: int, mi: int, t: int, k: int, rest: bool) -> bool:
    fv, ex = pick(V, vi)
    meter = pick(METERS, mi)
    b = Bar("C", meter)
    lenL = int(ex * L)
    unbounded = meter == (0, 0)
    capL = 0 if unbounded else int(Fraction(meter[0], meter[1]) * L)
    if not unbounded:
        assume(t <= capL)
    else:
        assume(t <= 60 * L)
    if not symbolic_mode():
        return True  # the abstract state has no concrete replay; see c13_history for concrete runs
    cb = _mk_state(b, t, k)
    sentinel = [0.0, 1, None]
    b.bar = [sentinel]
    content = None if fork(rest) else NoteContainer("C")
    accepted = b.place_notes(content, fv)
    exact_ok = unbounded or (t + lenL <= capL)
    if bool(accepted) != exact_ok:
        return False
    if exact_ok:
        if len(b.bar) != 2 or b.bar[0] is not sentinel:
            return False
        e = b.bar[1]
        if e[0] is not cb or e[1] != fv or e[2] is not content:
            return False
        return bool(_inv_holds(b.current_beat, t + lenL, k + 1))
    return len(b.bar) == 1 and b.bar[0] is sentinel and b.current_beat is cb


def c13_step_remove(vi: int, mi: int, t: int, k: int) -> bool:
    fv, ex = pick(V, vi)
    meter = pick(METERS, mi)
    b = Bar("C", meter)
    lenL = int(ex * L)
    assume(lenL <= t <= 60 * L)
    if not symbolic_mode():
        return True
    cb = _mk_state(b, t, k)
    first = [0.0, 4, None]
    b.bar = [first, [0.5, fv, None]]
    b.remove_last_entry()
    return len(b.bar) == 1 and b.bar[0] is first and bool(_inv_holds(b.current_beat, t - lenL, k + 1))


def c13_step_full(mi: int, t: int, k: int, empty: bool) -> bool:
    """is_full <=> non-empty and remaining < 0.001 (exact remaining is a multiple of 1/L, so this is: remaining == 0 or 1/L..); space_left + current_beat == length up to the envelope"""
    meter = pick(METERS, mi)
    b = Bar("C", meter)
    unbounded = meter == (0, 0)
    capL = 0 if unbounded else int(Fraction(meter[0], meter[1]) * L)
    assume(t <= (60 * L if unbounded else capL))
    if not symbolic_mode():
        return True
    cb = _mk_state(b, t, k)
    b.bar = [] if fork(empty) else [[0.0, 4, None]]
    full = b.is_full()
    rem = capL - t
    want = (not unbounded) and (not empty) and rem * 1000 < L
    # values with 0.001 - envelope < remaining < 0.001 + envelope cannot occur: remaining is a multiple of 1/L
    if rem * 1000 == L:
        return True
    if bool(full) != want:
        return False
    sl = b.space_left()
    import z3
    from crosshair.core_and_libs import NoTracing
    from crosshair.libimpl.builtinslib import SymbolicBool, SymbolicInt

    with NoTracing():
        rv = rem.var if isinstance(rem, SymbolicInt) else z3.IntVal(rem)
        center = z3.ToReal(rv) / L
        rad = z3.Q(K_MAX + 2, 2 ** 46)
        ok = SymbolicBool(z3.And(sl.r - center <= rad, center - sl.r <= rad))
    return bool(ok)


CONTENT = ["C", Note("E", 5), ["C", "E"], [Note("C", 3), Note("G", 3)], NoteContainer(["D", "F"]), None]


def c13_content(ci: int, vi: int) -> bool:
    fv, ex = pick(V, vi)
    ci = enum(ci, 0, len(CONTENT))
    c = CONTENT[ci]
    b = Bar("C", (0, 0))
    b.place_rest(4)
    if not b.place_notes(c, fv):
        return False
    e = b.bar[-1]
    if e[1] != fv or e[0] != 0.25:
        return False
    if c is None:
        return e[2] is None
    if not isinstance(e[2], NoteContainer):
        return False
    want = NoteContainer(c) if not isinstance(c, NoteContainer) else c
    return [(n.name, n.octave) for n in e[2]] == [(n.name, n.octave) for n in want]


def c13_setitem(ci: int, idx: int) -> bool:
    ci = enum(ci, 0, len(CONTENT) - 1)
    idx = enum(idx, 0, 3)
    b = Bar("C", (4, 4))
    b.place_notes("A", 4)
    b.place_rest(8)
    b.place_notes(["C", "E"], 8)
    before = [[e[0], e[1], None if e[2] is None else [(n.name, n.octave) for n in e[2]]] for e in b.bar]
    cb = b.current_beat
    b[idx] = CONTENT[ci]
    after = [[e[0], e[1], None if e[2] is None else [(n.name, n.octave) for n in e[2]]] for e in b.bar]
    want = NoteContainer(CONTENT[ci]) if not isinstance(CONTENT[ci], NoteContainer) else CONTENT[ci]
    for i in range(3):
        if i == idx:
            if after[i][:2] != before[i][:2] or after[i][2] != [(n.name, n.octave) for n in want]:
                return False
        elif after[i] != before[i]:
            return False
    if b.current_beat != cb or len(b) != 3:
        return False
    # place_notes_at: add to the sounding entry starting at beat 0.0 only
    b2 = Bar("C", (4, 4))
    b2.place_notes("A", 4)
    b2.place_notes("C", 4)
    b2.place_notes_at(NoteContainer("E"), 0.25)
    return [(n.name) for n in b2[0][2]] == ["A"] and sorted(n.name for n in b2[1][2]) == ["C", "E"] and b2.current_beat == 0.5 and len(b2) == 2


def c13_place_at(vi: int, k: int, off: int) -> bool:
    """place_notes_at adds to exactly the entry that starts at the given beat (entries as short as a 128th
    triplet lie closer than 0.01 to each other); a beat that is no entry start changes nothing"""
    fv, ex = pick([(128.0, Fraction(1, 128)), (value.triplet(128), Fraction(1, 192)), (value.septuplet(64), Fraction(1, 112)), (64.0, Fraction(1, 64)), (4.0, Fraction(1, 4))], vi)
    b = Bar("C", (4, 4))
    names = ["C", "E", "G", "B"]
    for nm in names:
        if not b.place_notes(nm, fv):
            return False
    k = enum(k, 0, 4)
    off = enum(off, 0, 3)
    at = b.bar[k][0]
    if off == 1:
        at = at + float(Fraction(1, 2048))  # close to, but not, a start beat
    elif off == 2:
        at = b.current_beat
    before = [[e[0], e[1], [n.name for n in e[2]]] for e in b.bar]
    cb = b.current_beat
    b.place_notes_at(NoteContainer("A"), at)
    after = [[e[0], e[1], [n.name for n in e[2]]] for e in b.bar]
    for i in range(4):
        want = list(before[i])
        if off == 0 and i == k:
            want = [before[i][0], before[i][1], sorted(before[i][2] + ["A"], key=lambda x: "CDEFGAB".index(x))]
            if sorted(after[i][2]) != sorted(want[2]) or after[i][:2] != want[:2]:
                return False
        elif after[i] != want:
            return False
    return b.current_beat == cb and len(b) == 4


def c13_set_meter_seq(c1: int, u1: int, c2: int, u2: int) -> bool:
    """set_meter on a bar that already has a meter (every ordered pair of small meters, incl. equal lengths
    such as 4/4 -> 2/2), followed by '+': meter, length and the value '+' places follow the meter set last"""
    US = [1, 2, 4, 8, 16]
    a = (enum(c1, 1, 13), pick(US, u1))
    bb = (enum(c2, 1, 13), pick(US, u2))
    bar = Bar("C", a)
    if bar.meter != a or bar.length != a[0] * (1.0 / a[1]):
        return False
    bar.set_meter(bb)
    if bar.meter != bb or bar.length != bb[0] * (1.0 / bb[1]):
        return False
    if not (bar + NoteContainer("C")):
        return False
    return bar.bar[0][1] == bb[1] and bar.bar[0][0] == 0.0 and bar.current_beat == 1.0 / bb[1]


def c13_set_meter(c: int, ui: int) -> bool:
    u = pick([1, 2, 4, 8, 16, 32, 64, 128, 256, 0, 3, 5, 6, 12, 24, -4, 100], ui)
    b = Bar()
    pow2 = u in (1, 2, 4, 8, 16, 32, 64, 128, 256)
    if pow2:
        b.set_meter((c, u))
        return b.meter == (c, u) and b.length == c * (1.0 / u)
    if u == 0 and c == 0:
        b.set_meter((c, u))
        return b.meter == (0, 0) and b.length == 0.0
    return raises_(Exception, b.set_meter, (c, u)) and b.meter == (4, 4) and b.length == 1.0


HV = [(4.0, Fraction(1, 4)), (8.0, Fraction(1, 8)), (value.triplet(8), Fraction(1, 12)), (value.quintuplet(16), Fraction(1, 20)), (value.dots(4), Fraction(3, 8)), (value.septuplet(8), Fraction(1, 14)), (2.0, Fraction(1, 2)), (value.dots(8, 2), Fraction(7, 32)), (16.0, Fraction(1, 16)), (value.triplet(16), Fraction(1, 24)), (1.0, Fraction(1)), (value.quintuplet(8), Fraction(1, 10))]
HM = [(4, 4), (3, 4), (6, 8), (5, 4), (0, 0)]


def c13_history(mi: int, a: int, b_: int, c: int, d: int, e: int, f: int) -> bool:
    """literal histories on the real float code: ops 0..n-1 place value i, n = remove last, n+1 = '+' (one beat unit)"""
    n = P["nv"]
    depth = P["depth"]
    meter = pick(HM, mi)
    ops = [enum(x, 0, n + 2) for x in (a, b_, c, d, e, f)[:depth]]
    bar = Bar("C", meter)
    cap = None if meter == (0, 0) else Fraction(meter[0], meter[1])
    model = []
    for op in ops:
        if op == n:
            if not model:
                continue
            bar.remove_last_entry()
            model.pop()
        else:
            if op == n + 1:
                fv = float(meter[1]) if meter[1] else 4.0
                ex = Fraction(1, meter[1]) if meter[1] else Fraction(1, 4)
                got = bar + NoteContainer("C")
            else:
                fv, ex = HV[P["vals"][op]] if P.get("vals") else HV[op]
                got = bar.place_notes("C", fv) if op % 2 else bar.place_rest(fv)
            tot = sum((m[1] for m in model), Fraction(0))
            ok = cap is None or tot + ex <= cap
            if bool(got) != ok:
                return False
            if ok:
                model.append((fv, ex))
        if len(bar) != len(model):
            return False
        tot = Fraction(0)
        for ent, (fv, ex) in zip(bar.bar, model):
            if abs(Fraction(ent[0]) - tot) > Fraction(1, 10 ** 12) or ent[1] != fv:
                return False
            tot += ex
        if abs(Fraction(bar.current_beat) - tot) > Fraction(1, 10 ** 12):
            return False
        if abs(Fraction(bar.current_beat) + Fraction(bar.space_left()) - Fraction(bar.length)) > Fraction(1, 10 ** 12):
            return False
        if cap is not None and bool(bar.is_full()) != (len(model) > 0 and cap - tot < Fraction(1, 1000)):
            return False
        if cap is None and bar.is_full():
            return False
    return True


FILL_W = [0, 8, 13, 14, 15, 21, 22, 23, 29, 30, 31, 37, 38, 39, 45, 47]


def c13_fill(vi: int, wi: int, a: int, mi: int) -> bool:
    """fills to capacity on the real float code: a x V[vi], then V[wi] until the exact model says it no longer
    fits, then one more attempt; every acceptance decision, the running total, is_full and space_left are
    compared with exact fractions"""
    fv, ex = pick(V, vi)
    gw, ew = pick(V, pick(FILL_W, wi) if P.get("subset") else wi)
    a = enum(a, 0, 3)
    meter = pick(METERS[:-1], mi)
    cap = Fraction(meter[0], meter[1])
    b = Bar("C", meter)
    tot = Fraction(0)
    n = 0
    seq = [(fv, ex)] * a
    while True:
        if seq:
            v, e = seq.pop(0)
        else:
            v, e = gw, ew
        fits = tot + e <= cap
        got = b.place_notes("C" if n % 2 else None, v)
        if bool(got) != fits:
            return False
        if not fits:
            break
        tot += e
        n += 1
        if abs(Fraction(b.current_beat) - tot) > Fraction(1, 10 ** 9) or len(b) != n:
            return False
        if n > 2000:
            return False
    if abs(Fraction(b.current_beat) + Fraction(b.space_left()) - cap) > Fraction(1, 10 ** 9):
        return False
    return bool(b.is_full()) == (n > 0 and cap - tot < Fraction(1, 1000))


def claims(tier):
    q = tier == "quick"
    from vf import absfloat

    absfloat.validate(500)
    cl = []
    nm = len(METERS)
    vs = list(range(len(V)))
    step = 8
    for lo in range(0, len(V), step):
        cl.append(Claim("step_place[v%d-%d]" % (lo, min(lo + step, len(V)) - 1), c13_step_place, params={"lo": lo, "hi": min(lo + step, len(V))}, inductive=True, pre=[lambda vi, mi, t, k: P["lo"] <= vi < P["hi"] and 0 <= mi < nm and 0 <= t and 0 <= k <= K_MAX - 1], timeout=1200 if q else 3000, bounds="values %d..%d of the %d-value vocabulary x %d meters (enumerated); exact total t (any multiple of 1/215040 up to the bar length; up to 60 for the unbounded meter) and operation count k <= 4095 symbolic; rest or notes" % (lo, min(lo + step, len(V)) - 1, len(V), nm)))
    for lo in range(0, len(V), 16):
        cl.append(Claim("step_remove[v%d-%d]" % (lo, min(lo + 16, len(V)) - 1), c13_step_remove, params={"lo": lo, "hi": min(lo + 16, len(V))}, inductive=True, pre=[lambda vi, mi, t, k: P["lo"] <= vi < P["hi"] and 0 <= mi < nm and 0 <= t and 0 <= k <= K_MAX - 1], timeout=1200 if q else 3000, bounds="remove_last_entry from an arbitrary state: values %d..%d x %d meters; t, k symbolic" % (lo, min(lo + 16, len(V)) - 1, nm)))
    cl.append(Claim("step_full", c13_step_full, inductive=True, pre=[lambda mi, t, k: 0 <= mi < nm and 0 <= t and 0 <= k <= K_MAX], timeout=1200 if q else 3000, bounds="is_full / space_left from an arbitrary state: %d meters; t, k symbolic; empty or non-empty" % nm))
    cl.append(Claim("content", c13_content, pre=[lambda ci, vi: 0 <= ci < len(CONTENT) and 0 <= vi < len(V)], timeout=1200, bounds="6 content forms (string, Note, list of strings, list of Notes, NoteContainer, None) x %d values" % len(V)))
    cl.append(Claim("setitem", c13_setitem, pre=[lambda ci, idx: 0 <= ci < len(CONTENT) - 1 and 0 <= idx < 3], timeout=600, bounds="__setitem__ with 5 content forms at each of 3 indices; place_notes_at"))
    cl.append(Claim("place_at", c13_place_at, pre=[lambda vi, k, off: 0 <= vi < 5 and 0 <= k < 4 and 0 <= off < 3], timeout=600, bounds="place_notes_at on four entries of 5 short values (128th, its triplet, septuplet 64th, 64th, quarter) at each start beat, near a start beat, and at the end"))
    for u1 in range(5):
        cl.append(Claim("set_meter_seq[u1=%d]" % [1, 2, 4, 8, 16][u1], c13_set_meter_seq, params={"u1": u1}, group="c13_set_meter_seq", pre=[lambda c1, u1, c2, u2: u1 == P["u1"] and 1 <= c1 <= (6 if q else 12) and 1 <= c2 <= (6 if q else 12) and 0 <= u2 < 5], timeout=900 if q else 3000, bounds="every ordered pair of meters count 1..%d / unit in {1,2,4,8,16} (first unit %d): set_meter twice, then '+'" % (6 if q else 12, [1, 2, 4, 8, 16][u1])))
    cl.append(Claim("set_meter", c13_set_meter, pre=[lambda ui: 0 <= ui < 17], timeout=600, bounds="count: every integer (symbolic, unbounded); 17 beat units (enumerated)"))
    nmet = len(METERS) - 1
    if q:
        for lo in range(0, len(V), 8):
            cl.append(Claim("fill[v%d-%d]" % (lo, lo + 7), c13_fill, params={"lo": lo}, group="c13_fill", pre=[lambda vi, wi, a, mi: P["lo"] <= vi < P["lo"] + 8 and wi == vi and a == 0 and 0 <= mi < nmet], timeout=1200, per_path=120, bounds="uniform fills to capacity (real doubles): values %d..%d of %d x %d meters" % (lo, lo + 7, len(V), nmet)))
    else:
        for vi0 in range(len(V)):
            cl.append(Claim("fill[v%d]" % vi0, c13_fill, params={"vi0": vi0, "subset": True}, group="c13_fill", pre=[lambda vi, wi, a, mi: vi == P["vi0"] and 0 <= wi < len(FILL_W) and 0 <= a <= 2 and 0 <= mi < nmet], timeout=3000, per_path=120, bounds="fills to capacity (real doubles): 0..2 x value %d then one of %d filler values until full x %d meters" % (vi0, len(FILL_W), nmet)))
    depth = 3 if q else 4
    nv = 6 if q else 10
    for mi in (0, 1):
        for first in range(5):
            cl.append(Claim("history_remove[m=%s,first=%d]" % ("%d/%d" % HM[mi], first), c13_history, params={"nv": 3, "depth": 5 if q else 6, "mi": mi, "first": first, "vals": [0, 1, 6]}, group="c13_history", pre=[lambda mi, a, b_, c, d, e, f: mi == P["mi"] and a == P["first"] and (f == 0 or P["depth"] >= 6)], timeout=1200 if q else 3000, bounds="all operation sequences of length %d over {place/rest a quarter, an eighth, a half; remove-last; '+'} starting with op %d in meter %s: refused placements and repeated removals, real doubles" % (5 if q else 6, first, "%d/%d" % HM[mi])))
    for mi in range(len(HM)):
        for first in range(nv + 2):
            cl.append(Claim("history[m=%s,first=%d]" % ("%d/%d" % HM[mi], first), c13_history, params={"nv": nv, "depth": depth, "mi": mi, "first": first}, group="c13_history", pre=[lambda mi, a, b_, c, d, e, f: mi == P["mi"] and a == P["first"] and e == 0 and f == 0 and (d == 0 or P["depth"] >= 4)], timeout=1200 if q else 3000, bounds="all operation sequences of length %d over {place/rest one of %d values, remove-last, '+'} starting with op %d in meter %s, real doubles" % (depth, nv, first, HM[mi])))
    return cl
