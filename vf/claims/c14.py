"""C14  Tracks and compositions accumulate music faithfully (track.py, composition.py, instrument.py, bar.py)."""
from fractions import Fraction

from vf.claim import Claim, assume, enum, fork, pick, raises_, real
from vf.ref import theory as T
from vf.ref.theory import NAT, net

from mingus.containers import Bar, Composition, Note, NoteContainer, Track
from mingus.containers.instrument import Guitar, Instrument, MidiInstrument, Piano
from mingus.containers.mt_exceptions import InstrumentRangeError
from mingus.core import value

P = {}
ASSUMPTIONS = [
    "track model: a list of bars, each a list of (value, content kind) with exact Fraction lengths; an item goes to a fresh bar (same key and meter) when the last bar is full, is accepted iff it fits, and a refusal leaves the track as it was",
    "operation sequences are enumerated by the solver up to the stated depth (no symbolic compression); the note-vs-instrument-range clause keeps the octave symbolic",
]
OUTSIDE = ["operation sequences longer than the stated depth", "values outside the listed vocabulary", "equality between two distinct Composition objects (the class defines no __eq__)", "from_chords with a tuning attached"]
VALS = [(4.0, Fraction(1, 4)), (2.0, Fraction(1, 2)), (8.0, Fraction(1, 8)), (1.0, Fraction(1)), (value.dots(4), Fraction(3, 8)), (value.triplet(8), Fraction(1, 12)), (16.0, Fraction(1, 16)), (value.quintuplet(16), Fraction(1, 20))]
KINDS = ["N", "C", "R"]
METERS = [(4, 4), (3, 4), (6, 8)]
KEYS = ["C", "eb", "F#"]


def _content(kind):
    if kind == "N":
        return Note("E", 4)
    if kind == "C":
        return NoteContainer(["C", "G"])
    return None


def _snap(t):
    return [(b.meter, b.key.key, [(e[1], None if e[2] is None else [(n.name, n.octave) for n in e[2]]) for e in b.bar]) for b in t.bars]


def c14_history(mi: int, ki: int, a: int, b_: int, c: int, d: int, plus: bool) -> bool:
    nv = P["nv"]
    depth = P["depth"]
    nops = 3 * nv
    meter = pick(METERS, mi)
    key = pick(KEYS, ki)
    ops = [enum(x, 0, nops) for x in (a, b_, c, d)[:depth]]
    t = Track()
    t.add_bar(Bar(key, meter))
    cap = Fraction(meter[0], meter[1])
    model = [[]]
    accepted = []
    use_plus = fork(plus)
    for op in ops:
        kind = KINDS[op // nv]
        fv, ex = VALS[op % nv]
        before = _snap(t)
        x = _content(kind)
        if use_plus and kind != "R" and fv == float(meter[1]) and False:
            got = t + x
        else:
            got = t.add_notes(x, fv)
        last_full = len(model[-1]) > 0 and sum((m[1] for m in model[-1]), Fraction(0)) == cap
        target = [] if last_full else model[-1]
        used = sum((m[1] for m in target), Fraction(0))
        ok = used + ex <= cap
        if bool(got) != ok:
            return False
        if ok:
            if last_full:
                model.append(target)
            target.append((fv, ex, kind))
            accepted.append((fv, kind))
        else:
            if last_full and P.get("exclude_known", True):
                # known finding: the item does not even fit an empty bar, the last bar is full -> the library
                # reports False but leaves a fresh empty bar appended; this history is not followed further
                return bool(got) is False and _snap(t)[: len(before)] == before
            if _snap(t) != before:
                return False
        # observations after every step
        items = list(t.get_notes())
        if len(items) != len(accepted):
            return False
        for (beat, dur, cont), (fv2, kind2) in zip(items, accepted):
            if dur != fv2:
                return False
            if kind2 == "R":
                if cont is not None:
                    return False
            elif kind2 == "N":
                if [(n.name, n.octave) for n in cont] != [("E", 4)]:
                    return False
            elif [(n.name, n.octave) for n in cont] != [("C", 4), ("G", 4)]:
                return False
        if len(t) != len(model):
            return False
        for bi, (bar, mb) in enumerate(zip(t.bars, model)):
            if bar.meter != meter or bar.key.key != key or len(bar) != len(mb):
                return False
            if bi < len(model) - 1 and not bar.is_full():
                return False
        if not t.test_integrity():
            return False
        tot = sum((Fraction(1) / Fraction(e[1]) for b in t.bars for e in b.bar), Fraction(0))
        want = sum((ex2 for mb in model for (_, ex2, _) in mb), Fraction(0))
        if abs(tot - want) > Fraction(1, 10 ** 9):
            return False
    return True


NEAR = [(128.0, Fraction(1, 128)), (64.0, Fraction(1, 64)), (32.0, Fraction(1, 32)), (value.dots(64), Fraction(3, 128)), (4.0, Fraction(1, 4)), (value.triplet(64), Fraction(1, 96))]
FILLERS = [(2.0, Fraction(1, 2)), (4.0, Fraction(1, 4)), (8.0, Fraction(1, 8)), (16.0, Fraction(1, 16)), (32.0, Fraction(1, 32)), (64.0, Fraction(1, 64)), (128.0, Fraction(1, 128))]


def c14_near_full(mi: int, stop: int, ai: int, bi: int) -> bool:
    """bars that are almost full: a halving run 1/2, 1/4, ... down to 1/2^(stop+1) (in as many bars as it takes),
    then two more items from a list of short values: a new bar may be opened only when the last one is full"""
    meter = pick([(4, 4), (3, 4), (2, 2), (1, 8), (6, 8)], mi)
    stop = enum(stop, 0, 7)
    cap = Fraction(meter[0], meter[1])
    t = Track()
    t.add_bar(Bar("G", meter))
    model = [[]]
    items = FILLERS[: stop + 1] + [pick(NEAR, ai), pick(NEAR, bi)]
    for fv, ex in items:
        used = sum(model[-1], Fraction(0))
        full = len(model[-1]) > 0 and cap - used < Fraction(1, 1000)
        if full:
            target_used = Fraction(0)
        else:
            target_used = used
        ok = target_used + ex <= cap
        got = t.add_notes(Note("D", 4), fv)
        if bool(got) != ok:
            return False
        if full and not ok:
            return True  # known finding (fresh empty bar left behind); not followed further
        if ok:
            if full:
                model.append([])
            model[-1].append(ex)
        if len(t) != len(model):
            return False
        for bar, mb in zip(t.bars, model):
            if len(bar) != len(mb) or bar.meter != meter or bar.key.key != "G":
                return False
            tot = sum((Fraction(1) / Fraction(e[1]) for e in bar.bar), Fraction(0))
            if abs(tot - sum(mb, Fraction(0))) > Fraction(1, 10 ** 9):
                return False
    return True


INSTR = [("Instrument", Instrument, 0, 96), ("Piano", Piano, 5, 107), ("Guitar", Guitar, 40, 88), ("MidiInstrument", MidiInstrument, 0, 107)]
NAMES = ["C", "E", "F", "B", "B#", "Cb", "F#", "Eb"]


def c14_range(ii: int, ni: int, o: int, form: int) -> bool:
    nm, cls, lo, hi = pick(INSTR, ii)
    name = pick(NAMES, ni)
    form = enum(form, 0, 6)
    t = Track(cls())
    if not t.add_notes(None, 4):
        return False
    p = 12 * o + NAT[name[0]] + net(name)
    inside = lo <= p <= hi
    if form == 0:
        x = Note(name, o)
    elif form == 1:
        x = NoteContainer([Note(name, o)])
    elif form == 2:
        x = [Note(name, o)]
    elif form == 3:
        nc = NoteContainer()
        nc.notes = [Note("G", 4), Note(name, o)]
        x = nc
    elif form == 4:
        x = [Note("G", 4), Note(name, o), Note("A", 4)]  # plain list, the note under test in the middle
    else:
        nc = NoteContainer(["G", "A", "B"])
        nc[1].name = name  # a container edited in place (no longer sorted)
        nc[1].octave = o
        x = nc
    # every other instrument judged the same note first (by its own range): that leaves this track's verdict alone
    for nm2, cls2, lo2, hi2 in INSTR:
        if nm2 != nm:
            other = Track(cls2())
            if lo2 <= p <= hi2:
                if other.add_notes(Note(name, o), 4) is not True:
                    return False
            elif not raises_(InstrumentRangeError, other.add_notes, Note(name, o), 4):
                return False
    if inside:
        ok = t.add_notes(x, 4) is True
        items = list(t.get_notes())
        return ok and len(items) == 2 and items[0][2] is None and items[1][2] is not None and t.add_notes(None, 2) is True
    before = _snap(t)
    return raises_(InstrumentRangeError, t.add_notes, x, 4) and _snap(t) == before


SHAPES = [
    ["C", "Am", None, "G7"],
    [["C", "F"], None, ["G", None]],
    [["C"], "D"],
    [[["C", "D"], "E"], "F", None],
    [None, None],
    ["C", ["D", ["E", "F"]], "G"],
    [["C", "D", "E"], "F"],
    [[["C", None, "D", "E"], "G"], "A"],
]


def _flatten(shape, dur, out):
    for c in shape:
        if isinstance(c, list):
            _flatten(c, dur * 2, out)
        else:
            out.append((c, dur))


def c14_from_chords(si: int, di: int, lead: int) -> bool:
    shape = pick(SHAPES, si)
    dur = pick([1, 2, 4], di)
    lead = enum(lead, 0, 3)
    t = Track()
    if lead == 1:
        t.add_notes("B", 4)  # a quarter note first: the following items straddle the bar lines
    elif lead == 2:
        t.add_notes("B", value.dots(4))
    t.from_chords(shape, dur)
    flat = []
    if lead:
        flat.append(("B", 4 if lead == 1 else value.dots(4)))
    for c in shape:
        if isinstance(c, list):
            _flatten(c, dur * 2, flat)
        else:
            flat.append((c, dur))
    items = list(t.get_notes())
    # merge split items: consecutive entries with the same chord root that add up to the requested length
    pos = 0
    for c, d in flat:
        need = Fraction(1) / Fraction(d).limit_denominator(10 ** 6)
        got = Fraction(0)
        parts = 0
        while got < need - Fraction(1, 10 ** 9):
            if pos >= len(items):
                return False
            beat, v, cont = items[pos]
            pos += 1
            parts += 1
            if c is None:
                if cont is not None:
                    return False
            else:
                if cont is None or cont[0].name != c[0] or cont[0].octave != 4:
                    return False
            got += Fraction(1) / Fraction(v)
        if abs(got - need) > Fraction(1, 10 ** 9) or parts > 2:
            return False
    if pos != len(items):
        return False
    tot = sum((Fraction(1) / Fraction(v) for _, v, _ in items), Fraction(0))
    return abs(tot - sum((Fraction(1) / Fraction(d).limit_denominator(10 ** 6) for _, d in flat), Fraction(0))) <= Fraction(1, 10 ** 9) and t.test_integrity()


def c14_composition(n: int, sel: int, k: int) -> bool:
    n = enum(n, 1, 4)
    k = enum(k, 0, 3)
    c = Composition()
    tracks = [Track() for _ in range(n)]
    for i, t in enumerate(tracks):
        if i % 2:
            c + t
        else:
            c.add_track(t)
        if c.selected_tracks != [i] or len(c) != i + 1 or c[i] is not t:
            return False
    sel = enum(sel, 0, n)
    c.selected_tracks = [sel] if k != 2 else list(range(n))
    x = [Note("C", 4), "E", NoteContainer(["C", "G"])][k]
    if k == 1:
        c + x
    else:
        c.add_note(x)
    for i, t in enumerate(tracks):
        hit = (k == 2) or i == sel
        items = list(t.get_notes())
        if len(items) != (1 if hit else 0):
            return False
    other = Track()
    other.add_notes([Note("C", 4), "E", NoteContainer(["C", "G"])][k])
    if not (tracks[sel] == other) or (n > 1 and k != 2 and tracks[(sel + 1) % n] == other):
        return False
    c[0] = other
    return c[0] is other and len(c) == n and tracks[sel][0] is tracks[sel].bars[0] and len(tracks[sel]) == 1


def claims(tier):
    q = tier == "quick"
    cl = []
    for nv, depth in ([(4, 3)] if q else [(6, 3), (4, 4)]):
        nops = 3 * nv
        for mi in range(3):
            for first in range(nops):
                tag = "" if q else ",nv=%d,depth=%d" % (nv, depth)
                cl.append(Claim("history[m=%d/%d,first=%s%s%s]" % (METERS[mi][0], METERS[mi][1], KINDS[first // nv], VALS[first % nv][1], tag), c14_history, params={"nv": nv, "depth": depth, "mi": mi, "first": first}, group="c14_history", pre=[lambda mi, ki, a, b_, c, d: mi == P["mi"] and ki == P["mi"] and a == P["first"] and (d == 0 or P["depth"] >= 4)], timeout=1200 if q else 3000, bounds="all add_notes sequences of length %d over {note, chord, rest} x %d values, first op fixed, meter %r, key %s" % (depth, nv, METERS[mi], KEYS[mi])))
    for ii in range(4):
        for fm in range(6):
            cl.append(Claim("range[%s,form=%d]" % (INSTR[ii][0], fm), c14_range, params={"ii": ii, "fm": fm}, group="c14_range", pre=[lambda ii, ni, o, form: ii == P["ii"] and 0 <= ni < len(NAMES) and 0 <= o <= 10 and form == P["fm"]], timeout=1200 if q else 3000, bounds="%s x %d names x octave symbolic 0..10 x form %s; a rest is added first and after" % (INSTR[ii][0], len(NAMES), ["Note", "NoteContainer", "list of Notes", "two-note container", "three-note list, note in the middle", "container edited in place, note in the middle"][fm])))
    for mi in range(5):
        cl.append(Claim("near_full[m%d]" % mi, c14_near_full, params={"mi": mi}, group="c14_near_full", pre=[lambda mi, stop, ai, bi: mi == P["mi"] and 0 <= stop <= 6 and 0 <= ai < len(NEAR) and 0 <= bi < len(NEAR)], timeout=1200 if q else 3000, bounds="meter %d of 5: halving run down to 1/2^(1..7) then two items from %d short values; bar opening and contents against the exact model" % (mi, len(NEAR))))
    cl.append(Claim("probe_history", c14_history, params={"nv": 4, "depth": 3, "mi": 1, "first": 1, "exclude_known": False}, group="c14_history", pre=[], probe_only=True))
    cl.append(Claim("from_chords", c14_from_chords, pre=[lambda si, di, lead: 0 <= si < len(SHAPES) and 0 <= di < 3 and 0 <= lead <= 2], timeout=1200, bounds="%d nested chord-list shapes (depth <= 3, rests) x durations 1, 2, 4 x lead-in (none, a quarter, a dotted quarter: items then straddle bar lines and are split)" % len(SHAPES)))
    cl.append(Claim("composition", c14_composition, pre=[lambda n, sel, k: 1 <= n <= 3 and 0 <= sel < 3 and 0 <= k < 3], timeout=600, bounds="1..3 tracks, selected track(s), add_note / '+' with Note, string, container; [] len =="))
    return cl
