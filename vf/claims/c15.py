"""C15  No hidden shared state: results, arguments, caches, instances (many modules)."""
import copy

from vf.claim import Claim, assume, enum, fork, pick, raises_, real, symbolic_mode, untraced, warm_cold
from vf.ref.theory import spelled
from vf.fuel import with_fuel
from vf.ref import theory as T

import mingus.extra.fft as fft
from mingus.containers import Bar, Composition, Note, NoteContainer, Track
from mingus.containers.instrument import Instrument, MidiInstrument, Piano
from mingus.containers.suite import Suite
from mingus.core import chords, intervals, keys, notes, progressions, scales, value
from mingus.midi.midi_file_out import MidiFile
from mingus.midi.midi_track import MidiTrack
from mingus.midi.sequencer import Sequencer
from mingus.midi.sequencer_observer import SequencerObserver

P = {}
ASSUMPTIONS = [
    "history independence is checked as: cold value (all memo tables empty) == value after any history of up to N battery calls whose results were each mutated in place (append / clear / nested edit); the battery and the key arguments are finite tables enumerated by the solver",
    "fft index memory: inductive step from an arbitrary state of the position memory satisfying its invariant (index n, remembered frequency v with table[n-1] < v <= table[n]); v and the looked-up frequency are symbolic doubles (Float64); the while loop carries a fuel counter",
    "sibling-instance scripts are concrete programs (one path each)",
]
OUTSIDE = ["histories longer than the stated depth", "keys other than the listed ones in the history battery", "frequencies above 48000 Hz", "NoteContainer(other) shares its Note objects with other (see known findings)"]
KS = ["C", "eb", "F#"]


def _rel(k):
    i = (T.MINOR_KEYS if T.key_is_minor(k) else T.MAJOR_KEYS).index(k)
    return (T.MAJOR_KEYS if T.key_is_minor(k) else T.MINOR_KEYS)[i]


def _battery(k):
    return [
        ("keys.get_notes", lambda: keys.get_notes(k)),
        ("keys.get_key_signature_accidentals", lambda: keys.get_key_signature_accidentals(k)),
        ("chords.triads", lambda: chords.triads(k)),
        ("chords.sevenths", lambda: chords.sevenths(k)),
        ("chords.tonic", lambda: chords.tonic(k)),
        ("chords.V7", lambda: chords.V7(k)),
        ("chords.triad", lambda: chords.triad(T.key_tonic(k), k)),
        ("intervals.third", lambda: intervals.third(T.key_tonic(k), k)),
        ("progressions.to_chords", lambda: progressions.to_chords(["I", "bVII7", "IVm"], k)),
        ("progressions.determine", lambda: progressions.determine(["G", "B", "D", "F"], "C", True)),
        ("scales.asc", lambda: (scales.NaturalMinor(T.key_tonic(k)) if T.key_is_minor(k) else scales.Major(T.key_tonic(k))).ascending()),
        ("scales.HarmonicMinor", lambda: scales.HarmonicMinor(T.key_tonic(KS[1])).descending()),
        ("chords.from_shorthand", lambda: chords.from_shorthand(T.key_tonic(k) + "m7|" + T.key_tonic(k))),
        ("chords.determine", lambda: chords.determine(["C", "E", "G", "B"], True)),
        ("keys.get_key", lambda: keys.get_key(keys.get_key_signature(k))),
        ("keys.get_notes(relative)", lambda: keys.get_notes(_rel(k))),
        ("chords.sevenths(relative)", lambda: chords.sevenths(_rel(k))),
        ("scales.Chromatic", lambda: scales.Chromatic(k).ascending()),
    ]


NB = len(_battery("C"))


def _mutate(r, how):
    """in-place edits of a returned value"""
    if isinstance(r, list):
        if how == 0:
            r.append("X")
        elif how == 1:
            if r and isinstance(r[0], list):
                r[0].append("X")
                r[-1][:] = []
            elif r:
                r[0] = "X"
        else:
            del r[:]
    return r


def _reset():
    keys._key_cache.clear()
    chords._triads_cache.clear()
    chords._sevenths_cache.clear()
    # and every other piece of module-level state the harness can find (a memo table added by a change to the repo)
    from vf import ext

    ext.ensure_state()
    ext.reset_state()


def c15_history(qk: int, h1: int, k1: int, m1: int, h2: int, k2: int, m2: int) -> bool:
    qi = P["qi"]
    depth = P["depth"]
    qkey = pick(KS, qk)
    _reset()
    cold = copy.deepcopy(_battery(qkey)[qi][1]())
    _reset()
    hist = [(h1, k1, m1), (h2, k2, m2)][:depth]
    for h, k, m in hist:
        h = enum(h, 0, NB)
        m = enum(m, 0, 3)
        r = _battery(pick(KS, k))[h][1]()
        _mutate(r, m)
    got = _battery(qkey)[qi][1]()
    if got != cold:
        return False
    _mutate(got, 1)
    again = _battery(qkey)[qi][1]()
    return again == cold


ARGF = [
    ("chords.determine", lambda a: chords.determine(a, True), ["C", "E", "G", "B"]),
    ("chords.determine_long", lambda a: chords.determine(a), ["E", "G", "C"]),
    ("scales.determine", lambda a: scales.determine(a), ["C", "E", "G"]),
    ("progressions.to_chords", lambda a: progressions.to_chords(a, "F"), ["I", "V7", "bII"]),
    ("progressions.determine", lambda a: progressions.determine(a, "C", True), [["C", "E", "G"], ["G", "B", "D", "F"]]),
    ("progressions.substitute", lambda a: progressions.substitute(a, 1, 2), ["I", "IV", "V7"]),
    ("progressions.substitute_harmonic", lambda a: progressions.substitute_harmonic(a, 0), ["IV", "V"]),
    ("progressions.substitute_minor_for_major", lambda a: progressions.substitute_minor_for_major(a, 0), ["VIm7"]),
    ("progressions.substitute_diminished_for_dominant", lambda a: progressions.substitute_diminished_for_dominant(a, 0), ["VIIdim7"]),
    ("intervals.invert", lambda a: intervals.invert(a), ["C", "E"]),
    ("chords.invert", lambda a: chords.invert(a), ["C", "E", "G"]),
    ("chords.second_inversion", lambda a: chords.second_inversion(a), ["C", "E", "G"]),
    ("chords.third_inversion", lambda a: chords.third_inversion(a), ["C", "E", "G", "B"]),
    ("chords.from_shorthand(list)", lambda a: chords.from_shorthand(a), ["Am", "G7", "NC"]),
    ("NoteContainer(list)", lambda a: NoteContainer(a).notes, ["C", "E", "G"]),
    ("NoteContainer.add_notes(pairs)", lambda a: NoteContainer().add_notes(a), [["C", 4], ["E", 5]]),
    ("NoteContainer.remove_notes(list)", lambda a: NoteContainer(["C", "E"]).remove_notes(a), ["C", "G"]),
    ("Bar.place_notes(list)", lambda a: (lambda b: (b.place_notes(a, 4), b.bar)[1])(Bar()), ["C", "E"]),
    ("Bar.__setitem__(list)", lambda a: (lambda b: (b.place_notes("A", 4), b.__setitem__(0, a), b.bar)[2])(Bar()), ["C", "E"]),
    ("Track.from_chords(nested)", lambda a: Track().from_chords(a, 1).bars, ["C", ["Am", None], None]),
    ("Instrument.can_play_notes(list)", lambda a: [Piano().can_play_notes(a)], [Note("C", 4), Note("E", 5)]),
]


def _shares(r, a, depth=0):
    """does result r (nested lists) contain the argument list object a or one of its sub-lists"""
    if depth > 4:
        return False
    subs = [a] + [x for x in a if isinstance(x, list)]
    if any(r is s for s in subs):
        return True
    if isinstance(r, (list, tuple)):
        return any(_shares(x, a, depth + 1) for x in r)
    return False


def c15_args(i: int) -> bool:
    name, f, arg = pick(ARGF, i)
    a = copy.deepcopy(arg)
    before = copy.deepcopy(a)
    r = f(a)
    if [repr(x) for x in a] != [repr(x) for x in before]:
        return False
    if _shares(r, a):
        return False
    r2 = f(copy.deepcopy(arg))
    return repr(r2) == repr(r) or name.startswith("Track") or name.startswith("Bar") or name.startswith("NoteContainer")


def _script(i):
    """(class, operate(instance)) pairs; operate must change the instance's own content"""
    S = [
        (NoteContainer, lambda o: o.add_notes(["C", "E"])),
        (Bar, lambda o: o.place_notes("C", 4)),
        (Track, lambda o: (o.add_notes("C", 4), o.add_bar(Bar()))),
        (Composition, lambda o: (o.add_track(Track()), o.add_note("C"), o.set_title("t"), o.set_author("a"))),
        (Suite, lambda o: (o.add_composition(Composition()), o.set_title("x"), o.set_author("y"))),
        (MidiTrack, lambda o: (o.play_Note(Note("C", 4)), o.set_deltatime(5), o.stop_Note(Note("C", 4)))),
        (MidiFile, lambda o: o.tracks.append(MidiTrack())),
        (Sequencer, lambda o: o.attach(SequencerObserver())),
        (Instrument, lambda o: o.set_range([Note("C", 2), Note("C", 3)])),
        (MidiInstrument, lambda o: setattr(o, "instrument_nr", 5)),
        (Note, lambda o: (o.set_note("D", 2), o.set_velocity(3), o.set_channel(4))),
    ]
    return S[i]


NS = 11


def _ctor_variants(cls):
    V = {
        Note: [lambda: Note("C", 4, velocity=100, channel=5), lambda: Note("D", 2, {"velocity": 7}), lambda: Note(Note("E", 1, velocity=9)), lambda: Note(61)],
        NoteContainer: [lambda: NoteContainer(["C", "E"]), lambda: NoteContainer(Note("C", 2, velocity=1)), lambda: NoteContainer(NoteContainer("G"))],
        Bar: [lambda: Bar("F", (3, 4)), lambda: Bar("a", (6, 8))],
        Track: [lambda: Track(Piano()), lambda: Track(MidiInstrument("Viola"))],
        MidiTrack: [lambda: MidiTrack(90)],
        MidiFile: [lambda: MidiFile([MidiTrack(60)])],
        MidiInstrument: [lambda: MidiInstrument("Viola")],
    }
    return V.get(cls, [])


def _sig(o, cls):
    """comparable picture of an instance's own state and of the class-level attributes"""
    inst = {}
    for n in dir(o):
        if n.startswith("__"):
            continue
        try:
            v = getattr(o, n)
        except Exception:
            continue
        if isinstance(v, (list, dict, set, bytearray, int, float, str, bytes, tuple)) or v is None:
            inst[n] = repr(v)
    klass = {n: repr(v) for n, v in vars(cls).items() if isinstance(v, (list, dict, set, bytes, tuple, str, int, float)) and not n.startswith("__")}
    return inst, klass


def c15_siblings(i: int) -> bool:
    cls, op = _script(enum(i, 0, NS))
    a = cls()
    b = cls()
    b_before, k_before = untraced(_sig, b, cls)
    a_before, _ = untraced(_sig, a, cls)
    op(a)
    b_after, k_after = untraced(_sig, b, cls)
    a_after, _ = untraced(_sig, a, cls)
    if b_after != b_before or k_after != k_before:
        return False
    if a_after == a_before:
        return False  # the script must really change the instance it operates on
    # constructors called with every argument form must not leave anything behind either
    for mk in _ctor_variants(cls):
        mk()
    c = cls()
    c_sig, _ = untraced(_sig, c, cls)
    _, k_final = untraced(_sig, b, cls)
    return c_sig == b_before and k_final == k_before


def c15_copies(o: int, vel: int) -> bool:
    src = Note("E", o, velocity=vel)
    cp = Note(src)
    cp.octave_up()
    cp.augment()
    cp.set_velocity(0)
    if (src.name, src.octave, src.velocity) != ("E", o, vel):
        return False
    a = NoteContainer([Note("C", o), Note("G", o)])
    b = NoteContainer(a)
    b.add_note(Note("B", o))
    b.remove_note("C")
    if [(n.name, n.octave) for n in a] != [("C", o), ("G", o)]:
        return False
    a.add_note(Note("D", o))
    return [(n.name, n.octave) for n in b] == [("G", o), ("B", o)]


class SymCache(dict):
    """A memo table in an ARBITRARY state that satisfies the table's invariant "every stored entry equals the
    cold value": whether a key is present is a fresh symbolic bool per key (decided lazily, only for the keys
    the code asks about); a present key yields (a copy of) its cold value.  Entries the code writes are kept
    so that the invariant can be re-checked afterwards (inductive step over all 2^n table states)."""

    def __init__(self, cold_fn, name):
        dict.__init__(self)
        self.cold_fn = cold_fn
        self.bits = {}
        self.written = {}
        self.name = name

    def _present(self, k):
        if k in self.written:
            return True
        if k not in self.bits:
            if symbolic_mode():
                from crosshair.core import proxy_for_type
                from crosshair.core_and_libs import NoTracing
                from crosshair.statespace import context_statespace

                with NoTracing():
                    self.bits[k] = proxy_for_type(bool, "%s_has_%s_%s" % (self.name, "".join(ch if ch.isalnum() else "_" for ch in str(k)), context_statespace().uniq()))
            else:
                self.bits[k] = False
        try:
            self.cold_fn(k)
        except Exception:
            return False  # keys that have no cold value are never stored
        return fork(self.bits[k])

    def __contains__(self, k):
        return self._present(k)

    def __getitem__(self, k):
        if k in self.written:
            return self.written[k]
        if self._present(k):
            return copy.deepcopy(self.cold_fn(k))
        raise KeyError(k)

    def __setitem__(self, k, v):
        self.written[k] = v

    def get(self, k, default=None):
        return self[k] if self._present(k) else default

    def setdefault(self, k, default=None):
        if not self._present(k):
            self.written[k] = default
        return self[k]

    def clear(self):
        self.written.clear()
        self.bits.clear()

    def invariant(self):
        for k, v in self.written.items():
            if v != self.cold_fn(k):
                return False
        return True


_COLD = {}


def _cold_tables():
    if not _COLD:
        _reset()
        allk = T.all_keys()
        _COLD["notes"] = {k: list(keys.get_notes(k)) for k in allk}
        _reset()
        _COLD["triads"] = {k: copy.deepcopy(chords.triads(k)) for k in allk}
        _reset()
        _COLD["sevenths"] = {k: copy.deepcopy(chords.sevenths(k)) for k in allk}
        _reset()
    return _COLD


CACHE_Q = [
    ("keys.get_notes", lambda k: keys.get_notes(k)),
    ("chords.triads", lambda k: chords.triads(k)),
    ("chords.sevenths", lambda k: chords.sevenths(k)),
    ("chords.subdominant7", lambda k: chords.subdominant7(k)),
    ("intervals.sixth", lambda k: intervals.sixth(T.key_tonic(k), k)),
    ("progressions.to_chords", lambda k: progressions.to_chords(["ii", "V7", "bIIIM7"], k)),
    ("scale", lambda k: (scales.NaturalMinor(T.key_tonic(k)) if T.key_is_minor(k) else scales.HarmonicMajor(T.key_tonic(k))).ascending()),
    ("relative", lambda k: keys.get_notes(_rel(k))),
]


def c15_cache_step(ki: int, qi: int) -> bool:
    """inductive step over every state of the three memo tables: a query answers its cold value and leaves
    every table entry equal to the cold value of its key"""
    cold = _cold_tables()
    k = pick(T.all_keys(), ki)
    name, f = pick(CACHE_Q, qi)
    _reset()
    want = copy.deepcopy(f(k))
    saved = (keys._key_cache, chords._triads_cache, chords._sevenths_cache)
    a = SymCache(lambda x: cold["notes"][x], "keycache")
    b = SymCache(lambda x: cold["triads"][x], "triads")
    c = SymCache(lambda x: cold["sevenths"][x], "sevenths")
    keys._key_cache, chords._triads_cache, chords._sevenths_cache = a, b, c
    try:
        got = f(k)
        ok = got == want and a.invariant() and b.invariant() and c.invariant()
        again = f(k)
        ok = ok and again == want
    finally:
        keys._key_cache, chords._triads_cache, chords._sevenths_cache = saved
        _reset()
    return ok


_FLI, _NL = with_fuel(fft._find_log_index, 300)
CACHE = list(fft._log_cache)


def _spec_ok(f, r):
    if f > CACHE[127] or f <= 0:
        return r == 128
    if not (0 <= r <= 127):
        return False
    lo = CACHE[r - 1] if r > 0 else 0.0
    return lo < f <= CACHE[r]


def c15_fft_step(n: int, v: float, f: float, cold_state: bool) -> bool:
    """one lookup from an arbitrary valid position memory == the cold lookup"""
    n = enum(n, P["lo"], P["hi"])
    lo = CACHE[n - 1] if n > 0 else 0.0
    if fork(cold_state):
        fft._last_asked = None
    else:
        assume(lo < v and v <= CACHE[n])
        fft._last_asked = (n, v)
    # run the instrumented copy (same source, fuel counter in the while loop); it uses the module's globals
    r = _FLI(f)
    if not _spec_ok(f, r):
        return False
    st = fft._last_asked
    if st is None:
        return True
    n2, v2 = st
    if not (0 <= n2 <= 128):
        return False
    lo2 = CACHE[n2 - 1] if n2 > 0 else 0.0
    return bool(lo2 < v2) and bool(v2 <= CACHE[n2])


# warm/cold with a symbolic query: the prior call comes from a short list of representative calls, the query's
# arguments are symbolic; the query must return what it returns in the initial state of all module-level state
WQ_SUFFIX = ["", "m", "m7", "M7", "7", "dim7", "m/M7", "6/9", "7b5", "sus4", "11"]
WQ = {
    "intervals.determine": (
        [("C", "E", True), ("C#", "E", False), ("Cb", "E#", True), ("B", "C", False)],
        lambda a: intervals.determine(a[0], a[1], a[2]),
        lambda n1, n2, up: intervals.determine(n1, n2, up),
        lambda n1, n2: spelled(n1, 1) and spelled(n2, 1),
    ),
    "notes.reduce_accidentals": (
        [("C#b",), ("Cb",), ("B#",), ("E##",)],
        lambda a: (notes.reduce_accidentals(a[0]), notes.remove_redundant_accidentals(a[0]), notes.augment(a[0]), notes.diminish(a[0]), notes.note_to_int(a[0])),
        lambda n1, n2, up: (notes.reduce_accidentals(n1), notes.remove_redundant_accidentals(n1), notes.augment(n1), notes.diminish(n1), notes.note_to_int(n1), notes.is_enharmonic(n1, n2)),
        lambda n1, n2: spelled(n1, 2) and spelled(n2, 1),
    ),
    "chords.from_shorthand": (
        [("Cm7",), ("C#m/M7",), ("Cbdim7",), ("Am|C",)],
        lambda a: chords.from_shorthand(a[0]),
        lambda n1, n2, up: chords.from_shorthand(n1 + pick(WQ_SUFFIX, len(n2))),
        lambda n1, n2: spelled(n1, 1) and len(n2) < len(WQ_SUFFIX),
    ),
}


def c15_warm_query(pi: int, n1: str, n2: str, up: bool) -> bool:
    priors, pf, qf, _ = WQ[P["fn"]]
    a = pick(priors, pi)
    up = fork(up)
    return warm_cold(lambda: pf(a), lambda: qf(n1, n2, up))


def claims(tier):
    q = tier == "quick"
    cl = []
    depth = 1 if q else 2
    for fn in sorted(WQ):
        if q and fn != "intervals.determine":
            continue
        cl.append(Claim("warm_query[%s]" % fn, c15_warm_query, params={"fn": fn, "np": 1 if q else 4}, group="c15_warm_query", pre=[lambda pi, n1, n2: 0 <= pi < P["np"] and WQ[P["fn"]][3](n1, n2)], timeout=900 if q else 3000, bounds="%s: prior call from %d representative calls %r; query arguments symbolic (names = letter + {#,b}^<=1..2; chord suffix = index into an 11-entry table, encoded as the length of the second string): warm result == result in the initial state" % (fn, 1 if q else 4, WQ[fn][0][: 1 if q else 4])))
    for qi in range(NB):
        nqk = 1 if q else 3
        cl.append(Claim("history[%s]" % _battery("C")[qi][0], c15_history, params={"qi": qi, "depth": depth, "qk0": qi % 3, "nqk": nqk}, group="c15_history", pre=[lambda qk, h1, k1, m1, h2, k2, m2: (qk == P["qk0"] if P["nqk"] == 1 else 0 <= qk < 3) and 0 <= h1 < NB and 0 <= k1 < 3 and 0 <= m1 < 3 and ((0 <= h2 < 6 and k2 == qk and m2 == 1) if P["depth"] > 1 else (h2 == 0 and k2 == 0 and m2 == 0))], timeout=1200 if q else 3400, per_path=60, bounds="query %s in %d key(s) after every history of one call from a %d-call battery x 3 keys x 3 in-place mutations of the returned value%s; then the query's own result is mutated and it is asked again" % (_battery("C")[qi][0], nqk, NB, "" if depth == 1 else " followed by one of the 6 memo-table-touching calls in the query's key with a nested edit of its result")))
    for qi in range(len(CACHE_Q)):
        cl.append(Claim("cache_step[%s]" % CACHE_Q[qi][0], c15_cache_step, params={"qi": qi}, group="c15_cache_step", inductive=False, pre=[lambda ki, qi: 0 <= ki < 30 and qi == P["qi"]], timeout=1200 if q else 3000, bounds="query %s in all 30 keys from EVERY state of the three memo tables that satisfies 'stored entry == cold value' (presence of each key a symbolic bool): answer == cold value, tables still satisfy the invariant" % CACHE_Q[qi][0]))
    cl.append(Claim("args", c15_args, pre=[lambda i: 0 <= i < len(ARGF)], timeout=900, per_path=60, bounds="%d list-taking public functions: argument deep-equal afterwards, result shares no list object with it" % len(ARGF)))
    for si in range(NS):
        cl.append(Claim("siblings[%s]" % _script(si)[0].__name__, c15_siblings, params={"si": si}, group="c15_siblings", pre=[lambda i: i == P["si"]], timeout=600, bounds="class %s: operating on one instance leaves a sibling, a later fresh instance and the class attributes unchanged" % _script(si)[0].__name__))
    cl.append(Claim("copies", c15_copies, pre=[lambda o, vel: 0 <= o <= 8 and 0 <= vel <= 127], timeout=600, bounds="Note(other) and NoteContainer(other): octave and velocity symbolic"))
    step = 8 if q else 4
    rng = list(range(0, 129, step))
    if q:
        rng = [0, 8, 56, 96, 112, 120, 128]
    for lo in rng:
        hi = min(lo + (8 if q else step), 129)
        cl.append(Claim("fft_step[n=%d-%d]" % (lo, hi - 1), c15_fft_step, params={"lo": lo, "hi": hi}, inductive=True, group="c15_fft_step", pre=[lambda n, v, f: P["lo"] <= n < P["hi"] and -1.0 <= f <= 48000.0], timeout=1200 if q else 3000, per_path=60, bounds="position memory index n in %d..%d (enumerated), remembered frequency v: every double in (table[n-1], table[n]], or no memory; looked-up f: every double in [-1, 48000]; fuel 300" % (lo, hi - 1)))
    return cl
