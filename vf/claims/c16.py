"""C16  MIDI output is well-formed SMF denoting the music written (midi_track.py, midi_file_out.py)."""
from vf import vio
from vf.claim import Claim, assume, enum, fork, pick, raises_, real
from vf.ref import smf
from vf.ref import theory as T
from vf.ref.theory import NAT, net

from mingus.containers import Bar, Composition, Note, NoteContainer, Track
from mingus.containers.instrument import MidiInstrument
from mingus.core import value
from mingus.core.keys import Key
from mingus.midi import midi_file_out as MFO
from mingus.midi.midi_track import MidiTrack

P = {}
ASSUMPTIONS = [
    "reference: vf/ref/smf.py, an independent SMF 1.0 reader (header length 6, chunk lengths, VLQ <= 4 bytes, running status, data bytes < 128, exactly one end-of-track at the end of every chunk) and the standard VLQ encoder",
    "event model: entries laid end to end at round(288/value) ticks, rests advance time only, note-on at the entry's start tick, note-off at its end, pitch number + 12",
    "shapes (number of bars/entries, which are rests or chords, note names, values, keys) are enumerated; octaves, velocity, channel, bpm, meter count and instrument number stay symbolic into the bytes",
    "files are written through the real write_* functions into an in-memory file (open() stub) and parsed from there",
]
OUTSIDE = ["bars in the unbounded (0,0) meter (no time signature exists for them)", "bpm below 4 (the tempo no longer fits three bytes)", "shapes other than the listed families", "track names that are not ASCII"]


def c16_vlq(v: int) -> bool:
    return MidiTrack().int_to_varbyte(v) == smf.vlq(v)


def c16_note_events(name_i: int, o: int, vel: int, ch: int) -> bool:
    name = pick(["C", "B#", "Cb", "F#", "Abb", "G##"], name_i)
    n = Note(name, o)
    n.velocity = vel
    n.channel = ch
    p = 12 * o + NAT[name[0]] + net(name) + 12
    assume(0 <= p <= 127)
    t = MidiTrack()
    t.track_data = b""
    t.play_Note(n)
    t.set_deltatime(5)
    t.stop_Note(n)
    return t.track_data == bytes([0, 0x90 + ch, p, vel, 5, 0x80 + ch, p, vel]) and t.note_on(ch, p, vel) == bytes([5, 0x90 + ch, p, vel])


def c16_tempo(bpm: int) -> bool:
    t = MidiTrack(bpm)
    return t.track_data == b"\x00\xff\x51\x03" + (60000000 // bpm).to_bytes(3, "big") and t.bpm == bpm


def c16_time_signature(count: int, ui: int) -> bool:
    k = enum(ui, 0, 8)
    t = MidiTrack()
    ev = t.time_signature_event((count, 2 ** k))
    return ev == bytes([0, 0xFF, 0x58, 4, count, k, 0x18, 8])


KEYS = T.all_keys()


def c16_key_signature(ki: int, as_obj: bool) -> bool:
    k = pick(KEYS, ki)
    sf = T.key_signature(T.key_tonic(k), T.key_is_minor(k))
    t = MidiTrack()
    t.track_data = b""
    if as_obj:
        t.set_key(Key(k))
    else:
        t.set_key(k)
    return t.track_data == bytes([0, 0xFF, 0x59, 2, sf % 256, 1 if T.key_is_minor(k) else 0])


NAMES = ["x", "Untitled", "Track Name Test", "", "A" * 130]


def c16_track_chunk(ni: int, bpm: int) -> bool:
    name = pick(NAMES, ni)
    t = MidiTrack(bpm)
    t.set_track_name(name)
    d = t.get_midi_data()
    body = b"\x00\xff\x51\x03" + (60000000 // bpm).to_bytes(3, "big") + b"\x00\xff\x03" + smf.vlq(len(name)) + name.encode("ascii") + b"\x00\xff\x2f\x00"
    return d == b"MTrk" + len(body).to_bytes(4, "big") + body


def _tick(v):
    return int(round(288 / v))


VALS = [4, 64, 8, value.quintuplet(4), 2, value.triplet(8), 16, 1, value.septuplet(4), value.dots(4), 3, 6, 32, 128, value.dots(64), value.triplet(64)]
POOL = [("C", "E"), ("B#", "Cb"), ("F#", "A"), ("E", "G")]


def _mk_notes(pi, o1, o2, vel, ch, n):
    a, b = pick(POOL, pi)
    x = Note(a, o1)
    y = Note(b, o2)
    for z in (x, y):
        z.velocity = vel
        z.channel = ch
    if n == 1:
        return [x]
    return [x, y]


def _pitch(n):
    return 12 * n.octave + NAT[n.name[0]] + net(n.name) + 12


def _expected_track(bars, instr_nr=None, reps=1):
    """bars: list of (key, meter, [(value, notes or None)]) -> (note events, meta events, instrument events);
    a repeat plays the whole track again, including its instrument announcement"""
    tick = 0
    notes = []
    metas = []
    instr = []
    nb = len(bars)
    for bi, (key, meter, entries) in enumerate(list(bars) * reps):
        if bi % nb == 0:
            first = True
        kk = key if isinstance(key, str) else key.key
        metas.append((tick, 0x58, (meter[0], meter[1])))
        metas.append((tick, 0x59, kk))
        for v, ns in entries:
            d = _tick(v)
            if ns:
                ns = sorted(ns, key=_pitch)  # a container keeps its notes ordered by pitch
                if first and instr_nr is not None:
                    instr.append((tick, "cc", ns[0].channel, 0, 1))
                    instr.append((tick, "prog", ns[0].channel, instr_nr))
                first = False
                for n in ns:
                    notes.append((tick, "on", n.channel, _pitch(n), n.velocity))
                for n in ns:
                    notes.append((tick + d, "off", n.channel, _pitch(n), n.velocity))
            tick += d
    return notes, metas, instr


def _decode_track(ev):
    notes = [(e[0], e[2], e[3], e[4], e[5]) for e in ev if e[2] in ("on", "off")]
    metas = []
    for e in ev:
        if e[2] == "meta" and e[3] == 0x58:
            if len(e[4]) != 4 or e[4][2] != 0x18 or e[4][3] != 8:
                raise smf.SMFError("bad time signature body")
            metas.append((e[0], 0x58, (e[4][0], 2 ** e[4][1])))
        elif e[2] == "meta" and e[3] == 0x59:
            if len(e[4]) != 2:
                raise smf.SMFError("bad key signature body")
            sf = e[4][0]
            if sf > 127:
                sf -= 256
            metas.append((e[0], 0x59, (T.MINOR_KEYS if e[4][1] else T.MAJOR_KEYS)[sf + 7]))
    instr = []
    for e in ev:
        if e[2] == "cc":
            instr.append((e[0], "cc", e[3], e[4], e[5]))
        elif e[2] == "prog":
            instr.append((e[0], "prog", e[3], e[4]))
    tempi = [(e[0], (e[4][0] * 256 + e[4][1]) * 256 + e[4][2]) for e in ev if e[2] == "meta" and e[3] == 0x51 and len(e[4]) == 3]
    names = [bytes(e[4]) if not isinstance(e[4], bytes) else e[4] for e in ev if e[2] == "meta" and e[3] == 3]
    other = [e for e in ev if not (e[2] in ("on", "off", "cc", "prog") or (e[2] == "meta" and e[3] in (0x58, 0x59, 0x51, 3, 0x2F)))]
    return notes, metas, instr, tempi, names, other


def _balanced(notes):
    """every (channel, pitch) is switched on only while silent and off only while sounding; silent at the end"""
    sounding = []
    for tck, kind, ch, p, v in notes:
        hit = None
        for idx in range(len(sounding)):
            if sounding[idx][0] == ch and sounding[idx][1] == p:
                hit = idx
        if kind == "on":
            if hit is not None:
                return False
            sounding.append((ch, p))
        else:
            if hit is None:
                return False
            del sounding[hit]
    return not sounding


SHAPES = ["note", "chord", "rest_note", "note_rest", "rest_rest_chord", "wholebar_rest_then_bar", "two_bars_change", "lead_rest_instrument", "rounding_values"]


def _build(shape, ns, vi):
    """-> list of bars (key, meter, entries) for one track"""
    v = pick(VALS, vi)
    one = ns[:1]
    if shape == "note":
        return [("C", (4, 4), [(v, one)])]
    if shape == "chord":
        return [("C", (4, 4), [(v, ns)])]
    if shape == "rest_note":
        return [("C", (4, 4), [(4, None), (v, ns)])]
    if shape == "note_rest":
        return [("G", (4, 4), [(v, one), (4, None)])]
    if shape == "rest_rest_chord":
        return [("F", (3, 4), [(8, None), (8, None), (v, ns)])]
    if shape == "wholebar_rest_then_bar":
        return [("C", (2, 4), [(2, None)]), ("C", (2, 4), [(v, ns)])]
    if shape == "two_bars_change":
        return [("Eb", (3, 4), [(2, one), (4, None)]), ("f#", (6, 8), [(8, ns), (v, one)])]
    if shape == "lead_rest_instrument":
        return [("a", (4, 4), [(2, None), (v, ns)])]
    if shape == "rounding_values":
        return [("C", (4, 4), [(value.quintuplet(4), one), (value.septuplet(8), ns), (value.quintuplet(4), None), (v, one)])]
    raise KeyError(shape)


def _mk_track(bars, instr):
    t = Track(instr)
    for key, meter, entries in bars:
        b = Bar(key, meter)
        for v, ns in entries:
            ok = b.place_notes(None if ns is None else NoteContainer(list(ns)), v)
            assume(ok)
        t.add_bar(b)
    return t


def c16_program(pi: int, o1: int, o2: int, vel: int, ch: int, vi: int, rep: int, inr: int) -> bool:
    shape = P["shape"]
    rep = enum(rep, 0, P["maxrep"] + 1)
    ns = _mk_notes(pi, o1, o2, vel, ch, 2)
    assume(_pitch(ns[0]) != _pitch(ns[1]))
    assume(0 <= _pitch(ns[0]) <= 127 and 0 <= _pitch(ns[1]) <= 127)
    bars = _build(shape, ns, vi)
    instr = None
    if shape == "lead_rest_instrument":
        instr = MidiInstrument()
        instr.instrument_nr = inr
    else:
        assume(inr == 0)
    t = _mk_track(bars, instr)
    t.name = "T1"
    path = vio.new_path("c16.mid")
    if not MFO.write_Track(path, t, 120, rep):
        return False
    data = vio.get(path)
    fmt, ntr, div, tracks = smf.parse(data)
    if (fmt, ntr, div) != (1, 1, 72):
        return False
    notes, metas, ins, tempi, names, other = _decode_track(tracks[0])
    exp_n, exp_m, exp_i = _expected_track(bars, None if instr is None else inr, rep + 1)
    if other:
        return False
    if notes != exp_n or not _balanced(notes):
        return False
    if metas != exp_m:
        return False
    # the property asks for the announcement before the first note; a writer that repeats it at the start of
    # every pass (as this one does) or announces it once is equally acceptable
    if ins != exp_i and ins != exp_i[:2]:
        return False
    if tempi != [(0, 500000)]:
        return False
    return 1 <= len(names) <= rep + 1 and all(n == b"T1" for n in names)


def c16_single(pi: int, o1: int, o2: int, vel: int, ch: int, rep: int, bpm: int, kind: int) -> bool:
    """write_Note / write_NoteContainer: the content lasts 72 ticks, repeated rep+1 times"""
    rep = enum(rep, 0, 3)
    kind = enum(kind, 0, 4)
    ns = _mk_notes(pi, o1, o2, vel, ch, 2)
    assume(_pitch(ns[0]) < _pitch(ns[1]))
    assume(0 <= _pitch(ns[0]) and _pitch(ns[1]) <= 127)
    path = vio.new_path("c16s.mid")
    if kind == 0:
        ok = MFO.write_Note(path, ns[0], bpm, rep)
        sounding = ns[:1]
    elif kind == 1:
        ok = MFO.write_NoteContainer(path, NoteContainer(list(ns)), bpm, rep)
        sounding = ns
    elif kind == 2:
        ok = MFO.write_NoteContainer(path, NoteContainer([ns[1]]), bpm, rep)
        sounding = ns[1:]
    else:
        ok = MFO.write_NoteContainer(path, NoteContainer(), bpm, rep)
        sounding = []
    if not ok:
        return False
    fmt, ntr, div, tracks = smf.parse(vio.get(path))
    if (fmt, ntr, div) != (1, 1, 72):
        return False
    notes, metas, ins, tempi, names, other = _decode_track(tracks[0])
    exp = []
    for r in range(rep + 1):
        for n in sounding:
            exp.append((72 * r, "on", n.channel, _pitch(n), n.velocity))
        for n in sounding:
            exp.append((72 * r + 72, "off", n.channel, _pitch(n), n.velocity))
    return notes == exp and _balanced(notes) and tempi == [(0, 60000000 // bpm)] and not metas and not ins and not other


def c16_composition(ntr: int, o1: int, o2: int, vel: int, ch: int, bpm: int) -> bool:
    ntr = enum(ntr, 0, 5)
    c = Composition()
    want = []
    for i in range(ntr):
        ns = _mk_notes(i % len(POOL), o1, o2, vel, (ch + i) % 16, 2)
        assume(_pitch(ns[0]) != _pitch(ns[1]) and 0 <= _pitch(ns[0]) <= 127 and 0 <= _pitch(ns[1]) <= 127)
        bars = [(KEYS[(7 * i + 3) % 30], (4, 4), [(4, None)] * (i % 2) + [(2, ns[: 1 + i % 2]), (4, ns)])]
        t = _mk_track(bars, None)
        t.name = "track %d" % i
        c.add_track(t)
        want.append(_expected_track(bars))
    path = vio.new_path("c16c.mid")
    if not MFO.write_Composition(path, c, bpm):
        return False
    fmt, n, div, tracks = smf.parse(vio.get(path))
    if (fmt, n, div) != (1, ntr, 72) or len(tracks) != ntr:
        return False
    for i in range(ntr):
        notes, metas, ins, tempi, names, other = _decode_track(tracks[i])
        if notes != want[i][0] or metas != want[i][1] or ins or other or tempi != [(0, 60000000 // bpm)] or names != [("track %d" % i).encode("ascii")]:
            return False
    # writing the same composition again (same process, fresh file) gives the same file
    path2 = vio.new_path("c16c2.mid")
    return bool(MFO.write_Composition(path2, c, bpm)) and vio.get(path2) == vio.get(path)


def claims(tier):
    q = tier == "quick"
    cl = []
    cl.append(Claim("vlq_encoder", c16_vlq, pre=[lambda v: 0 <= v <= 2 ** 28 - 1], timeout=600, bounds="v: every integer 0..2^28-1 (symbolic) against the standard encoder"))
    cl.append(Claim("note_events", c16_note_events, pre=[lambda name_i, o, vel, ch: 0 <= name_i < 6 and 0 <= o <= 10 and 0 <= vel <= 127 and 0 <= ch <= 15], timeout=600, bounds="6 spellings x octave, velocity 0..127, channel 0..15 symbolic; pitch within 0..127"))
    cl.append(Claim("tempo", c16_tempo, pre=[lambda bpm: 4 <= bpm <= 10 ** 6], timeout=600, bounds="bpm: every integer 4..10^6 (symbolic)"))
    cl.append(Claim("time_signature", c16_time_signature, pre=[lambda count, ui: 1 <= count <= 255 and 0 <= ui < 8], timeout=600, bounds="count 1..255 symbolic; unit 1,2,...,128 (enumerated)"))
    cl.append(Claim("key_signature", c16_key_signature, pre=[lambda ki: 0 <= ki < 30], timeout=600, bounds="30 keys, as Key object and as string"))
    cl.append(Claim("track_chunk", c16_track_chunk, pre=[lambda ni, bpm: 0 <= ni < len(NAMES) and 4 <= bpm <= 10 ** 6], timeout=600, bounds="5 track names (incl. empty and 130 characters: two-byte length) x bpm symbolic; chunk length field and end of track"))
    nv = 6 if q else len(VALS)
    def fits(shape, vi):
        from fractions import Fraction
        x = Note("C", 4)
        for key, meter, entries in _build(shape, [x, Note("E", 4)], vi):
            tot = sum(Fraction(1) / Fraction(v).limit_denominator(10 ** 6) for v, _ in entries)
            if tot > Fraction(meter[0], meter[1]):
                return False
        return True

    for shape in SHAPES:
        for vi in range(nv):
            if not fits(shape, vi):
                continue
            cl.append(Claim("program[%s,v=%s]" % (shape, round(VALS[vi], 3)), c16_program, params={"shape": shape, "vi": vi, "maxrep": 1 if q else 2}, group="c16_program", pre=[lambda pi, o1, o2, vel, ch, vi, rep, inr: 0 <= pi < len(POOL) and 1 <= o1 <= 8 and 1 <= o2 <= 8 and 0 <= vel <= 127 and 0 <= ch <= 15 and vi == P["vi"] and 0 <= rep <= P["maxrep"] and 0 <= inr <= 127], timeout=1200 if q else 3000, per_path=60, bounds="shape %s with value %s; 4 name pairs incl. B#/Cb; both octaves 1..8, velocity 0..127, channel 0..15, instrument number 0..127 symbolic; repeat 0..%d" % (shape, round(VALS[vi], 3), 1 if q else 2)))
    cl.append(Claim("single", c16_single, pre=[lambda pi, o1, o2, vel, ch, rep, bpm, kind: 0 <= pi < len(POOL) and 0 <= o1 <= 9 and 0 <= o2 <= 9 and 0 <= vel <= 127 and 0 <= ch <= 15 and 0 <= rep <= 2 and 4 <= bpm <= 10 ** 6 and 0 <= kind < 4], timeout=1200 if q else 3000, bounds="write_Note / write_NoteContainer (two notes, one note, empty): octaves, velocity, channel, bpm symbolic; repeat 0..2"))
    cl.append(Claim("composition", c16_composition, pre=[lambda ntr, o1, o2, vel, ch, bpm: 0 <= ntr <= 4 and 1 <= o1 <= 7 and 1 <= o2 <= 7 and 0 <= vel <= 127 and 0 <= ch <= 15 and 4 <= bpm <= 10 ** 6], timeout=1200 if q else 3000, bounds="write_Composition with 0..4 tracks (different keys, leading rests, names); octaves, velocity, channel, bpm symbolic"))
    return cl
