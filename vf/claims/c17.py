"""C17  MIDI write -> read round trip (midi_file_in.py, midi_file_out.py, midi_track.py)."""
from vf import vio
from vf.claim import Claim, assume, enum, fork, pick, raises_, real
from vf.ref import smf
from vf.ref import theory as T
from vf.ref.theory import NAT, net

from mingus.containers import Bar, Composition, Note, NoteContainer, Track
from mingus.containers.instrument import MidiInstrument
from mingus.core import value
from mingus.midi import midi_file_in as MFI
from mingus.midi import midi_file_out as MFO
from mingus.midi.midi_track import MidiTrack

P = {}
ASSUMPTIONS = [
    "writer and reader run in the same symbolic path: the reader consumes the writer's (largely symbolic) bytes from an in-memory file",
    "flattening: per track the sequence of (ticks, set of pitch numbers) with adjacent rests merged and a trailing rest dropped; ticks of an entry = round(288/value)",
    "the variable-length reader is also checked on arbitrary bytes (independently of the writer) against the standard decoding",
    "rejection = any exception (the reader wraps its own errors in IOError)",
]
OUTSIDE = ["tracks that begin with a rest (known finding: the reader merges a leading rest into the first note's entry)", "velocity 0 (read back as note-off by design)", "values whose tick length is not integral", "bpm above 1000 in the exhaustive tempo claim (60000000 div (60000000 div bpm) == bpm stops holding above 7745)", "tracks whose bars differ in meter or key"]


def _reader(data):
    vio.put(vio.new_path("vlq.bin"), data)
    return open(vio.new_path("vlq.bin"), "rb")


def c17_vlq_roundtrip(v: int) -> bool:
    data = MidiTrack().int_to_varbyte(v)
    got, n = MFI.MidiFile().parse_varbyte_as_int(_reader(data))
    return got == v and n == len(data)


def c17_vlq_reader(b0: int, b1: int, b2: int, b3: int, n: int) -> bool:
    n = enum(n, 1, 5)
    bs = [b0, b1, b2, b3][:n]
    for i, b in enumerate(bs):
        if i < n - 1:
            assume(128 <= b <= 255)
        else:
            assume(0 <= b <= 127)
    want = 0
    for b in bs:
        want = want * 128 + (b % 128)
    got, k = MFI.MidiFile().parse_varbyte_as_int(_reader(bytes(bs) + b"\x55"))
    return got == want and k == n


def _pitch(n):
    return 12 * n.octave + NAT[n.name[0]] + net(n.name) + 12


def _flatten_bars(bars):
    out = []
    for key, meter, entries in bars:
        for v, ns in entries:
            out.append((int(round(288 / v)), sorted(set(_pitch(n) for n in ns)) if ns else []))
    return _merge(out)


def _merge(seq):
    out = []
    for t, ps in seq:
        if not ps and out and not out[-1][1]:
            out[-1] = (out[-1][0] + t, [])
        else:
            out.append((t, list(ps)))
    while out and not out[-1][1]:
        out.pop()
    return out


def _flatten_track(t):
    seq = []
    for b in t.bars:
        for beat, dur, nc in b.bar:
            ps = sorted(set(int(n) + 12 for n in nc)) if nc else []
            seq.append((int(round(288 / dur)), ps))
    return _merge(seq)


VALS = [4, 2, 8, 16, 1, 3, 6, 12, value.dots(4), value.dots(8), value.triplet(8), 32]
POOL = [("C", "E"), ("B#", "Cb"), ("F#", "A"), ("E", "G")]
KEYS = T.all_keys()
SHAPES = ["note", "chord", "note_rest_chord", "chord_rest_rest_note", "two_bars", "three_entries"]


def _build(shape, ns, v, key, meter):
    one = ns[:1]
    two = ns[1:]
    if shape == "note":
        return [(key, meter, [(v, one)])]
    if shape == "chord":
        return [(key, meter, [(v, ns)])]
    if shape == "note_rest_chord":
        return [(key, meter, [(v, one), (4, None), (8, ns)])]
    if shape == "chord_rest_rest_note":
        return [(key, meter, [(8, ns), (8, None), (v, None), (8, two)])]
    if shape == "two_bars":
        return [(key, meter, [(2, one), (4, None)]), (key, meter, [(v, ns), (8, None), (8, one)])]
    if shape == "three_entries":
        return [(key, meter, [(v, one), (v, two), (8, ns)])]
    raise KeyError(shape)


def _mk_track(bars, instr):
    t = Track(instr)
    for key, meter, entries in bars:
        b = Bar(key, meter)
        for v, ns in entries:
            assume(b.place_notes(None if ns is None else NoteContainer(list(ns)), v))
        t.add_bar(b)
    return t


def c17_program(pi: int, o1: int, o2: int, vel: int, ch: int, vi: int, ki: int, inr: int, with_instr: bool) -> bool:
    shape = P["shape"]
    a, b = pick(POOL, pi)
    x, y = Note(a, o1), Note(b, o2)
    for z in (x, y):
        z.velocity = vel
        z.channel = ch
    assume(_pitch(x) != _pitch(y) and 0 <= _pitch(x) <= 127 and 0 <= _pitch(y) <= 127)
    v = pick(VALS, vi)
    key = pick(KEYS, ki)
    meter = (3, 4)
    bars = _build(shape, [x, y], v, key, meter)
    instr = None
    if fork(with_instr):
        instr = MidiInstrument()
        instr.instrument_nr = inr
    else:
        assume(inr == 0)
    t = _mk_track(bars, instr)
    t.name = "Lead %s" % shape
    c = Composition()
    c.add_track(t)
    path = vio.new_path("c17.mid")
    if not MFO.write_Composition(path, c, 90):
        return False
    c2, bpm = MFI.MIDI_to_Composition(path)
    if bpm != 90 or len(c2.tracks) != 1:
        return False
    t2 = c2.tracks[0]
    if _flatten_track(t2) != _flatten_bars(bars):
        return False
    for bar in t2.bars:
        for beat, dur, nc in bar.bar:
            for n in nc or []:
                if n.channel != ch or n.velocity != vel:
                    return False
        if len(bar.bar) and (bar.meter != meter or bar.key.key != key):
            return False
    if t2.name != t.name:
        return False
    if instr is not None:
        if not hasattr(t2.instrument, "instrument_nr") or t2.instrument.instrument_nr != inr:
            return False
    return True


def c17_tracks(ntr: int, o1: int, vel: int) -> bool:
    ntr = enum(ntr, 1, 5)
    c = Composition()
    want = []
    for i in range(ntr):
        x = Note(["C", "E", "G", "B"][i], o1)
        x.velocity = vel
        y = Note("D", o1 + 1)
        y.velocity = vel
        # relative keys next to each other: same signature, other mode
        bars = [(["C", "a", "e", "G"][i], (4, 4), [(4, [x]), (4, None), (2, [x, y])])]
        t = _mk_track(bars, None)
        t.name = "t%d" % i
        c.add_track(t)
        want.append(_flatten_bars(bars))
    path = vio.new_path("c17t.mid")
    if not MFO.write_Composition(path, c, 120):
        return False
    c2, bpm = MFI.MIDI_to_Composition(path)
    if len(c2.tracks) != ntr or bpm != 120:
        return False
    for i in range(ntr):
        if _flatten_track(c2.tracks[i]) != want[i] or c2.tracks[i].name != "t%d" % i:
            return False
        for bar in c2.tracks[i].bars:
            if len(bar.bar) and (bar.meter != (4, 4) or bar.key.key != ["C", "a", "e", "G"][i]):
                return False
    return True


def c17_names(n1: int, n2: int, o1: int) -> bool:
    """track names of any length up to 300 characters come back as written (the name's length field becomes a
    two-byte variable-length quantity from 128 characters on), on the first and on the last track"""
    lens = [0, 1, 126, 127, 128, 129, 255, 256, 300]
    a = pick(lens, n1)
    b = pick(lens, n2)
    c = Composition()
    x = Note("C", o1)
    for i, ln in enumerate((a, b)):
        t = _mk_track([("C", (4, 4), [(4, [x]), (4, None), (2, [x])])], None)
        t.name = ("N%d-" % i + "abcdefghij" * 30)[:ln]
        c.add_track(t)
    path = vio.new_path("c17n.mid")
    if not MFO.write_Composition(path, c, 120):
        return False
    c2, bpm = MFI.MIDI_to_Composition(path)
    if len(c2.tracks) != 2:
        return False
    for i, ln in enumerate((a, b)):
        want = ("N%d-" % i + "abcdefghij" * 30)[:ln]
        if c2.tracks[i].name != want:
            return False
        if _flatten_track(c2.tracks[i]) != [(72, [_pitch(x)]), (72, []), (144, [_pitch(x)])]:
            return False
    return True


def c17_bpm(bpm: int) -> bool:
    bpm = enum(bpm, P["lo"], P["hi"])
    b = Bar("C", (4, 4))
    b.place_notes("C", 4)
    path = vio.new_path("c17b.mid")
    if not MFO.write_Bar(path, b, bpm):
        return False
    c2, got = MFI.MIDI_to_Composition(path)
    return got == bpm


def _file(hdr, trk_tag):
    body = b"\x00\xff\x51\x03\x07\xa1\x20\x00\x90\x3c\x40\x48\x80\x3c\x40\x00\xff\x2f\x00"
    return hdr + trk_tag + len(body).to_bytes(4, "big") + body


def c17_reject_header(t0: int, t1: int, t2: int, t3: int, fmt: int) -> bool:
    tag = bytes([t0, t1, t2, t3])
    good_tag = tag == b"MThd"
    good_fmt = 0 <= fmt <= 2
    assume(not (good_tag and good_fmt))
    data = _file(tag + b"\x00\x00\x00\x06" + fmt.to_bytes(2, "big") + b"\x00\x01\x00\x48", b"MTrk")
    path = vio.new_path("bad.mid")
    vio.put(path, data)
    return raises_(Exception, MFI.MIDI_to_Composition, path)


def c17_reject_track_tag(t0: int, t1: int, t2: int, t3: int) -> bool:
    tag = bytes([t0, t1, t2, t3])
    assume(tag != b"MTrk")
    data = _file(b"MThd\x00\x00\x00\x06\x00\x01\x00\x01\x00\x48", tag)
    path = vio.new_path("bad2.mid")
    vio.put(path, data)
    return raises_(Exception, MFI.MIDI_to_Composition, path)


def c17_accept_good(fmt: int) -> bool:
    data = _file(b"MThd\x00\x00\x00\x06" + fmt.to_bytes(2, "big") + b"\x00\x01\x00\x48", b"MTrk")
    path = vio.new_path("good.mid")
    vio.put(path, data)
    c, bpm = MFI.MIDI_to_Composition(path)
    return len(c.tracks) == 1 and bpm == 120 and _flatten_track(c.tracks[0]) == [(72, [60])]


def c17_leading_rest(o1: int) -> bool:
    """probe for the known finding: a track that begins with a rest"""
    x = Note("C", o1)
    bars = [("C", (4, 4), [(4, None), (4, [x])])]
    t = _mk_track(bars, None)
    c = Composition()
    c.add_track(t)
    path = vio.new_path("c17l.mid")
    MFO.write_Composition(path, c, 120)
    c2, bpm = MFI.MIDI_to_Composition(path)
    return _flatten_track(c2.tracks[0]) == _flatten_bars(bars)


def claims(tier):
    q = tier == "quick"
    cl = []
    cl.append(Claim("vlq_roundtrip", c17_vlq_roundtrip, pre=[lambda v: 0 <= v <= 2 ** 28 - 1], timeout=600, bounds="v: every integer 0..2^28-1 (symbolic): reader(writer(v)) == v"))
    cl.append(Claim("vlq_reader", c17_vlq_reader, pre=[lambda b0, b1, b2, b3, n: 1 <= n <= 4 and 0 <= b0 <= 255 and 0 <= b1 <= 255 and 0 <= b2 <= 255 and 0 <= b3 <= 255], timeout=600, bounds="every sequence of 1..4 bytes with proper continuation bits (symbolic) == standard value"))
    nv = 5 if q else len(VALS)
    def fits(shape, vi):
        from fractions import Fraction
        for key, meter, entries in _build(shape, [Note("C", 4), Note("E", 4)], VALS[vi], "C", (3, 4)):
            if sum(Fraction(1) / Fraction(v).limit_denominator(10 ** 6) for v, _ in entries) > Fraction(meter[0], meter[1]):
                return False
        return True

    for shape in SHAPES:
        for vi in range(nv):
            if not fits(shape, vi):
                continue
            cl.append(Claim("program[%s,v=%s]" % (shape, round(VALS[vi], 3)), c17_program, params={"shape": shape, "vi": vi, "fewkeys": q}, group="c17_program", pre=[lambda pi, o1, o2, vel, ch, vi, ki, inr: 0 <= pi < len(POOL) and 1 <= o1 <= 8 and 1 <= o2 <= 8 and 1 <= vel <= 127 and 0 <= ch <= 15 and vi == P["vi"] and 0 <= ki < (6 if P.get("fewkeys") else 30) and 0 <= inr <= 127], timeout=1500 if q else 3200, per_path=90, bounds="shape %s, value %s, 3/4; 4 name pairs; %s keys; octaves 1..8, velocity 1..127, channel 0..15, instrument number 0..127 symbolic; with and without MIDI instrument" % (shape, round(VALS[vi], 3), "6" if q else "all 30")))
    cl.append(Claim("tracks", c17_tracks, pre=[lambda ntr, o1, vel: 1 <= ntr <= 4 and 1 <= o1 <= 7 and 1 <= vel <= 127], timeout=1200, bounds="1..4 tracks; octave and velocity symbolic"))
    cl.append(Claim("names", c17_names, pre=[lambda n1, n2, o1: 0 <= n1 < 9 and 0 <= n2 < 9 and 1 <= o1 <= 7], timeout=1500 if q else 3000, bounds="two tracks with names of length 0, 1, 126..129, 255, 256, 300 (all pairs); octave symbolic"))
    step = 125 if q else 63
    hi_all = 504 if q else 1001
    for lo in range(4, hi_all, step):
        cl.append(Claim("bpm[%d-%d]" % (lo, min(lo + step, hi_all) - 1), c17_bpm, params={"lo": lo, "hi": min(lo + step, hi_all)}, group="c17_bpm", pre=[lambda bpm: P["lo"] <= bpm < P["hi"]], timeout=1500 if q else 3000, bounds="every integer bpm %d..%d (enumerated)" % (lo, min(lo + step, hi_all) - 1)))
    cl.append(Claim("reject_header", c17_reject_header, pre=[lambda t0, t1, t2, t3, fmt: 0 <= t0 <= 255 and 0 <= t1 <= 255 and 0 <= t2 <= 255 and 0 <= t3 <= 255 and 0 <= fmt <= 65535], timeout=900, bounds="header tag: any 4 bytes; format word: any 16-bit value; at least one of them wrong"))
    cl.append(Claim("reject_track_tag", c17_reject_track_tag, pre=[lambda t0, t1, t2, t3: 0 <= t0 <= 255 and 0 <= t1 <= 255 and 0 <= t2 <= 255 and 0 <= t3 <= 255], timeout=900, bounds="track tag: any 4 bytes other than MTrk"))
    cl.append(Claim("accept_good", c17_accept_good, pre=[lambda fmt: 0 <= fmt <= 2], timeout=300, bounds="formats 0, 1, 2 accepted"))
    cl.append(Claim("probe_leading_rest", c17_leading_rest, pre=[], group="c17_program", probe_only=True))
    return cl
