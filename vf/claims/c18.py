"""C18  Sequencer playback: balanced, ordered, correctly timed event stream (sequencer.py, sequencer_observer.py)."""
from fractions import Fraction

from vf.claim import Claim, assume, enum, fork, pick, raises_, real
from vf.ref import theory as T
from vf.ref.theory import NAT, net

from mingus.containers import Bar, Composition, Note, NoteContainer, Track
from mingus.containers.instrument import MidiInstrument, Piano
from mingus.midi.sequencer import Sequencer
from mingus.midi.sequencer_observer import SequencerObserver

P = {}
ASSUMPTIONS = [
    "a recording Sequencer subclass and a recording SequencerObserver (both defined in the harness, implementing only the documented hooks) collect the event stream",
    "event model: per entry, in order: one play per note (pitch number + 12, the note's own channel and velocity), then a sleep of 240/bpm seconds per whole note of the entry's length, then one stop per note; rests only sleep",
    "shapes and bpm values are enumerated; octaves, velocity and channel stay symbolic into the recorded events; sleep totals are compared to 1e-9 relative",
    "instrument announcement: the index of the MidiInstrument's name in its names table (the library's program lookup), 1 when there is no such name or no MIDI instrument",
]
OUTSIDE = ["parallel bars whose entry boundaries differ (known finding: notes are re-triggered / left sounding)", "shapes other than the listed ones", "bpm values other than the listed ones"]


class Rec(Sequencer):
    def init(self):
        self.ev = []

    def play_event(self, note, channel, velocity):
        self.ev.append(("play", note, channel, velocity))

    def stop_event(self, note, channel):
        self.ev.append(("stop", note, channel))

    def cc_event(self, channel, control, value):
        self.ev.append(("cc", channel, control, value))

    def instr_event(self, channel, instr, bank):
        self.ev.append(("instr", channel, instr, bank))

    def sleep(self, seconds):
        self.ev.append(("sleep", seconds))


class Obs(SequencerObserver):
    def __init__(self):
        self.ev = []

    def play_int_note_event(self, int_note, channel, velocity):
        self.ev.append(("play", int_note, channel, velocity))

    def stop_int_note_event(self, int_note, channel):
        self.ev.append(("stop", int_note, channel))

    def cc_event(self, channel, control, value):
        self.ev.append(("cc", channel, control, value))

    def instr_event(self, channel, instr, bank):
        self.ev.append(("instr", channel, instr, bank))

    def sleep(self, seconds):
        self.ev.append(("sleep", seconds))


def _p(n):
    return 12 * n.octave + NAT[n.name[0]] + net(n.name) + 12


def _mk(pi, o1, o2, vel, ch):
    a, b = pick([("C", "E"), ("B#", "Cb"), ("F#", "A")], pi)
    x, y = Note(a, o1), Note(b, o2)
    x.velocity, x.channel = vel, ch
    y.velocity, y.channel = (vel + 1) % 128, (ch + 1) % 16
    assume(_p(x) != _p(y))
    return x, y


def _close(a, b):
    return abs(a - b) <= 1e-9 * max(abs(a), abs(b), 1e-12)


def _same_events(got, exp):
    if len(got) != len(exp):
        return False
    for g, e in zip(got, exp):
        if g[0] != e[0]:
            return False
        if g[0] == "sleep":
            if not _close(g[1], e[1]):
                return False
        elif g[0] == "instr":
            if tuple(g[:3]) != tuple(e[:3]):  # channel and program; the bank is not part of the property
                return False
        elif tuple(g) != tuple(e):
            return False
    return True


def _balanced(ev):
    on = []
    for e in ev:
        if e[0] == "play":
            if (e[1], e[2]) in on:
                return False
            on.append((e[1], e[2]))
        elif e[0] == "stop":
            if (e[1], e[2]) not in on:
                return False
            on.remove((e[1], e[2]))
    return not on


def _exp_bar(entries, bpm):
    """entries: [(value, notes-or-None, bpm change or None)] -> expected events, final bpm"""
    ev = []
    for v, ns, newbpm in entries:
        ns = sorted(ns, key=_p) if ns else []
        for n in ns:
            ev.append(("play", _p(n), n.channel, n.velocity))
        if newbpm is not None:
            bpm = newbpm
        ev.append(("sleep", (60.0 / bpm) * (4.0 / v)))
        for n in ns:
            ev.append(("stop", _p(n), n.channel))
    return ev, bpm


def _mk_bar(entries, meter=(4, 4)):
    b = Bar("C", meter)
    for v, ns, newbpm in entries:
        c = None if ns is None else NoteContainer(list(ns))
        if newbpm is not None:
            c.bpm = newbpm
        assume(b.place_notes(c, v))
    return b


BPMS = [120, 60, 7, 333]
BAR_SHAPES = ["note", "chord_rest", "rest_chord_note", "tempo_change", "three"]


def _entries(shape, x, y):
    if shape == "note":
        return [(4, [x], None)]
    if shape == "chord_rest":
        return [(2, [x, y], None), (4, None, None)]
    if shape == "rest_chord_note":
        return [(8, None, None), (8, [y, x], None), (4, [x], None)]
    if shape == "tempo_change":
        return [(4, [x], None), (4, [y], 90), (2, [x, y], None)]
    if shape == "three":
        return [(3, [x], None), (6, [y], None), (2, None, None)]
    raise KeyError(shape)


def c18_note(pi: int, o1: int, o2: int, vel: int, ch: int) -> bool:
    x, y = _mk(pi, o1, o2, vel, ch)
    s = Rec()
    o = Obs()
    s.attach(o)
    ok = s.play_Note(x) and s.stop_Note(x)
    nc = NoteContainer([x, y])
    ok = ok and s.play_NoteContainer(nc) and s.stop_NoteContainer(nc) and s.play_NoteContainer(None) and s.stop_NoteContainer(None)
    lo, hi = sorted([x, y], key=_p)
    exp = [("play", _p(x), x.channel, x.velocity), ("stop", _p(x), x.channel), ("play", _p(lo), lo.channel, lo.velocity), ("play", _p(hi), hi.channel, hi.velocity), ("stop", _p(lo), lo.channel), ("stop", _p(hi), hi.channel)]
    return ok and s.ev == exp and o.ev == exp and _balanced(s.ev)


def c18_bar(pi: int, o1: int, o2: int, vel: int, ch: int, bi: int) -> bool:
    shape = P["shape"]
    bpm = pick(BPMS, bi)
    x, y = _mk(pi, o1, o2, vel, ch)
    entries = _entries(shape, x, y)
    b = _mk_bar(entries)
    s = Rec()
    o = Obs()
    s.attach(o)
    s.attach(o)
    r = s.play_Bar(b, 5, bpm)
    exp, final = _exp_bar(entries, bpm)
    if r != {"bpm": final}:
        return False
    if not _same_events(s.ev, exp) or not _same_events(o.ev, exp) or not _balanced(s.ev):
        return False
    total = sum(e[1] for e in s.ev if e[0] == "sleep")
    want = 0.0
    cur = bpm
    for v, ns, nb in entries:
        if nb is not None:
            cur = nb
        want += 240.0 / cur / v
    if not _close(total, want):
        return False
    s.detach(o)
    n0 = len(o.ev)
    s.play_Bar(b, 5, bpm)
    return len(o.ev) == n0 and len(s.ev) == 2 * len(exp)


def c18_track(pi: int, o1: int, o2: int, vel: int, ch: int, bi: int) -> bool:
    bpm = pick(BPMS, bi)
    x, y = _mk(pi, o1, o2, vel, ch)
    e1 = _entries("tempo_change", x, y)
    e2 = _entries("chord_rest", x, y) + [(4, [y], None)]
    e3 = [(4, [x], None), (4, [y], 45), (2, None, None)]
    t = Track()
    t.add_bar(_mk_bar(e1))
    t.add_bar(_mk_bar(e2))
    t.add_bar(_mk_bar(e3))
    s = Rec()
    o = Obs()
    s.attach(o)
    r = s.play_Track(t, 2, bpm)
    ex1, b1 = _exp_bar(e1, bpm)
    ex2, b2 = _exp_bar(e2, b1)
    ex3, b3 = _exp_bar(e3, b2)
    return r == {"bpm": b3} and _same_events(s.ev, ex1 + ex2 + ex3) and _same_events(o.ev, ex1 + ex2 + ex3) and _balanced(s.ev)


def _exp_parallel(bars_entries, bpm):
    """equal rhythms: entry k of every bar starts and ends together"""
    ev = []
    n = len(bars_entries[0])
    for k in range(n):
        v = bars_entries[0][k][0]
        for ent in bars_entries:
            ns = sorted(ent[k][1], key=_p) if ent[k][1] else []
            for nn in ns:
                ev.append(("play", _p(nn), nn.channel, nn.velocity))
        ev.append(("sleep", (60.0 / bpm) * (4.0 / v)))
        for ent in bars_entries:
            ns = sorted(ent[k][1], key=_p) if ent[k][1] else []
            for nn in ns:
                ev.append(("stop", _p(nn), nn.channel))
    return ev


# General MIDI program names 0..7 (from the GM level 1 sound set), enough to know the index of the names used here
REF_NAMES = ["Acoustic Grand Piano", "Bright Acoustic Piano", "Electric Grand Piano", "Honky-tonk Piano", "Electric Piano 1", "Electric Piano 2", "Harpsichord", "Clavi"]
INSTR_NAME = "Harpsichord"


def c18_tracks(pi: int, o1: int, o2: int, vel: int, ch: int, bi: int, ntr: int, named: bool) -> bool:
    global INSTR_NAME
    INSTR_NAME = P.get("instr", "Harpsichord")
    bpm = pick(BPMS, bi)
    ntr = enum(ntr, 1, 4)
    x, y = _mk(pi, o1, o2, vel, ch)
    z = Note("D", o1)
    z.velocity, z.channel = vel, (ch + 2) % 16
    assume(_p(z) != _p(x) and _p(z) != _p(y))
    rhythm = [4, 8, 8, 2]
    contents = [[[x], None, [x], [x]], [[y], [y], None, [y]], [None, [z], [z], None]][:ntr]
    ents = [[(v, c, None) for v, c in zip(rhythm, cs)] for cs in contents]
    tempo_at = P.get("tempo_at")  # (track, entry, bpm): a tempo-changing container in one of the parallel bars
    if tempo_at is not None and tempo_at[0] < ntr:
        ti_, ei_, nb_ = tempo_at
        v_, c_, _ = ents[ti_][ei_]
        ents[ti_][ei_] = (v_, c_, nb_)
    tracks = []
    for i, e in enumerate(ents):
        ins = None
        if i == 0:
            ins = MidiInstrument(INSTR_NAME if fork(named) else "")
        elif i == 1:
            ins = Piano()
        t = Track(ins)
        t.add_bar(_mk_bar(e))
        t.add_bar(_mk_bar(e))
        tracks.append(t)
    chans = list(P.get("chans", [3, 9, 0]))[:ntr]
    s = Rec()
    o = Obs()
    s.attach(o)
    use_comp = P.get("composition", False)
    if use_comp:
        c = Composition()
        for t in tracks:
            c.add_track(t)
        r = s.play_Composition(c, chans, bpm)
    else:
        r = s.play_Tracks(tracks, chans, bpm)
    instr = []
    for i in range(ntr):
        prog = 1
        if i == 0 and named:
            prog = REF_NAMES.index(INSTR_NAME) if INSTR_NAME in REF_NAMES else 1
        instr.append(("instr", chans[i], prog, 0))
    if tempo_at is not None and tempo_at[0] < ntr:
        # tempo model: from the changing entry on (and in every later bar) the new tempo applies
        def par(bp):
            ev = []
            cur = bp
            for kk in range(len(rhythm)):
                for ent in ents:
                    for nn in (sorted(ent[kk][1], key=_p) if ent[kk][1] else []):
                        ev.append(("play", _p(nn), nn.channel, nn.velocity))
                for ent in ents:
                    if ent[kk][2] is not None:
                        cur = ent[kk][2]
                ev.append(("sleep", (60.0 / cur) * (4.0 / rhythm[kk])))
                for ent in ents:
                    for nn in (sorted(ent[kk][1], key=_p) if ent[kk][1] else []):
                        ev.append(("stop", _p(nn), nn.channel))
            return ev, cur
        e1, b1 = par(bpm)
        e2, b2 = par(b1)
        exp = instr + e1 + e2
        return r == {"bpm": b2} and _same_events(s.ev, exp) and _same_events(o.ev, exp) and _balanced(s.ev)
    exp = instr + _exp_parallel(ents, bpm) + _exp_parallel(ents, bpm)
    if P.get("twice"):
        # the same tracks played again on the same sequencer: announced again, played again
        r = s.play_Composition(c, chans, bpm) if use_comp else s.play_Tracks(tracks, chans, bpm)
        exp = exp + exp
    return r == {"bpm": bpm} and _same_events(s.ev, exp) and _same_events(o.ev, exp) and _balanced(s.ev)


def c18_unequal(o1: int) -> bool:
    """probe for the known finding: a half note against two quarter notes"""
    x = Note("C", o1)
    y = Note("E", o1)
    b1 = _mk_bar([(2, [x], None), (2, None, None)])
    b2 = _mk_bar([(4, [y], None), (4, [y], None), (2, None, None)])
    s = Rec()
    s.play_Bars([b1, b2], [1, 2], 120)
    plays = [e for e in s.ev if e[0] == "play"]
    return _balanced(s.ev) and len(plays) == 3


def c18_control_change(ch: int, c: int, v: int) -> bool:
    s = Rec()
    o = Obs()
    s.attach(o)
    r = s.control_change(ch, c, v)
    ok = 0 <= c <= 128 and 0 <= v <= 128
    if ok:
        return r is True and s.ev == [("cc", ch, c, v)] and o.ev == [("cc", ch, c, v)]
    return r is False and s.ev == [] and o.ev == []


def c18_cc_helpers(ch: int, v: int) -> bool:
    s = Rec()
    r1, r2, r3 = s.modulation(ch, v), s.main_volume(ch, v), s.pan(ch, v)
    if 0 <= v <= 128:
        return r1 and r2 and r3 and s.ev == [("cc", ch, 1, v), ("cc", ch, 7, v), ("cc", ch, 10, v)]
    return (not r1) and (not r2) and (not r3) and s.ev == []


def claims(tier):
    q = tier == "quick"
    cl = []
    pre5 = lambda pi, o1, o2, vel, ch: 0 <= pi < 3 and 0 <= o1 <= 8 and 0 <= o2 <= 8 and 0 <= vel <= 127 and 0 <= ch <= 15
    cl.append(Claim("note", c18_note, pre=[pre5], timeout=900, bounds="play/stop Note and NoteContainer (also None): 3 name pairs; octaves 0..8, velocity 0..127, channel 0..15 symbolic; observer stream == hook stream"))
    for shape in BAR_SHAPES:
        cl.append(Claim("bar[%s]" % shape, c18_bar, params={"shape": shape}, group="c18_bar", pre=[pre5, lambda bi: 0 <= bi < len(BPMS)], timeout=1200 if q else 3000, bounds="play_Bar shape %s x 4 bpm values; octaves, velocity, channel symbolic; observer attached twice then detached; return value; total sleep" % shape))
    cl.append(Claim("track", c18_track, pre=[pre5, lambda bi: 0 <= bi < len(BPMS)], timeout=1200 if q else 3000, bounds="play_Track over two bars with a tempo-changing container; 4 start bpm values; scalars symbolic"))
    cl.append(Claim("tracks", c18_tracks, pre=[pre5, lambda bi, ntr: 0 <= bi < len(BPMS) and 1 <= ntr <= 3], timeout=1500 if q else 3000, bounds="play_Tracks with 1..3 parallel tracks of equal rhythm over two bars; MIDI (named / unnamed) and plain instruments; scalars symbolic"))
    for nm in ("Acoustic Grand Piano", "Clavi", "No Such Instrument"):
        cl.append(Claim("tracks[instr=%s]" % nm, c18_tracks, params={"instr": nm}, group="c18_tracks", pre=[pre5, lambda bi, ntr: bi == 0 and 1 <= ntr <= 2 and True, lambda pi: pi == 0], timeout=1500 if q else 3000, bounds="play_Tracks, first track's MIDI instrument named %r (program %s)" % (nm, REF_NAMES.index(nm) if nm in REF_NAMES else "1: unknown name")))
    for ta in ((0, 2, 90), (1, 0, 45), (0, 3, 200)):
        cl.append(Claim("tracks[tempo track %d entry %d]" % ta[:2], c18_tracks, params={"tempo_at": ta}, group="c18_tracks", pre=[pre5, lambda bi, ntr: 0 <= bi < 2 and 2 <= ntr <= 3, lambda pi: pi == 0], timeout=1500 if q else 3000, bounds="play_Tracks with 2..3 parallel tracks; a tempo-changing container (bpm %d) at entry %d of track %d (not the last track)" % (ta[2], ta[1], ta[0])))
    cl.append(Claim("tracks[shared channel]", c18_tracks, params={"chans": [5, 5, 6]}, group="c18_tracks", pre=[pre5, lambda bi, ntr: bi == 0 and 2 <= ntr <= 3, lambda pi: pi == 0], timeout=1500 if q else 3000, bounds="play_Tracks with 2..3 tracks, the first two on the same channel (5, 5, 6): one instrument change per track"))
    cl.append(Claim("tracks[played twice]", c18_tracks, params={"twice": True}, group="c18_tracks", pre=[pre5, lambda bi, ntr: bi == 0 and 1 <= ntr <= 2, lambda pi: pi == 0], timeout=1500 if q else 3000, bounds="the same 1..2 tracks played twice on one sequencer: the second playback announces and plays everything again"))
    cl.append(Claim("composition", c18_tracks, params={"composition": True}, pre=[pre5, lambda bi, ntr: 0 <= bi < 2 and 1 <= ntr <= 3], timeout=1500 if q else 3000, bounds="play_Composition, as 'tracks'"))
    cl.append(Claim("control_change", c18_control_change, timeout=300, bounds="channel, control number, value: every integer (unbounded, symbolic)"))
    cl.append(Claim("cc_helpers", c18_cc_helpers, timeout=300, bounds="modulation / main_volume / pan: channel and value every integer"))
    cl.append(Claim("probe_unequal", c18_unequal, pre=[], group="c18_tracks", probe_only=True))
    return cl
