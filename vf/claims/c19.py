"""C19  LilyPond and MusicXML exports decode back to the same music (extra/lilypond.py, extra/musicxml.py)."""
from fractions import Fraction

from vf.claim import Claim, assume, deep_real, enum, fork, pick, raises_, real, untraced
from vf.ref import lily
from vf.ref import theory as T
from vf.ref.theory import NAT, net, spelled

from mingus.containers import Bar, Composition, Note, NoteContainer, Track
from mingus.containers.instrument import MidiInstrument, Piano
from mingus.core import value
from mingus.extra import lilypond, musicxml

P = {}
ASSUMPTIONS = [
    "reference: vf/ref/lily.py, an independent reader of the LilyPond subset used (absolute octaves: c = octave 3; \\key, \\time, \\times a/b { }, chords < >, rests, dots, \\longa, \\breve, \\header fields)",
    "LilyPond output text is fully determined by the path condition once the exporter returns (it forks on every character and octave mark), so it is concretised before the reference reader tokenises it",
    "MusicXML is checked on the DOM the exporter builds (text nodes may still be symbolic) and, for escaping/well-formedness, on the serialised text re-parsed with xml.dom.minidom (expat; concrete strings)",
    "an entry's length in quarter notes is computed exactly: 4/base * (2 - 2^-dots) * normal/actual",
]
OUTSIDE = ["a real LilyPond / MusicXML consumer", "header strings containing double quotes or backslashes (the LilyPond header is not escaped)", "shapes other than the listed ones", "dots combined with tuplets"]
BASES = [0.25, 0.5, 1, 2, 4, 8, 16, 32, 64, 128]


def _vocab():
    out = []
    for b in BASES:
        out.append((b, b, 0, (1, 1)))
        for d in (1, 2, 3, 4):
            out.append((value.dots(b, d), b, d, (1, 1)))
        out.append((value.triplet(b), b, 0, (3, 2)))
        out.append((value.quintuplet(b), b, 0, (5, 4)))
        out.append((value.septuplet(b), b, 0, (7, 4)))
    return out


V = _vocab()


def c19_ly_note(name: str, o: int) -> bool:
    o = enum(o, 0, 9)
    out = lilypond.from_Note(Note(name, o))
    items = lily.parse_music(deep_real(out))
    bare = lilypond.from_Note(Note(name, o), standalone=False)
    nooct = lilypond.from_Note(Note(name, o), False, False)
    (p2, rest2) = lily._pitch(deep_real(bare))
    (p3, rest3) = lily._pitch(deep_real(nooct))
    return items == [("entry", [(name, o)], None, 0, (1, 1))] and p2 == (name, o) and rest2 == "" and p3 == (name, 3) and rest3 == ""


POOL = [("C", 4), ("Eb", 4), ("F##", 2), ("Abb", 5), ("B", 0), ("G#", 8)]


def c19_ly_container(n: int, vi: int, o: int) -> bool:
    n = enum(n, 0, 6)
    v, base, dots, ratio = pick(V, vi)
    nc = NoteContainer()
    notes = []
    for k in range(n):
        nm, oo = POOL[k]
        if k == 0:
            oo = o
        notes.append(Note(nm, oo))
    nc.add_notes(notes)
    want = [(x.name, x.octave) for x in nc.notes]
    out = lilypond.from_NoteContainer(nc, v)
    items = lily.parse_music(deep_real(out))
    ok = items == [("entry", want, base, dots, (1, 1))]
    none_out = lilypond.from_NoteContainer(None, v, standalone=False)
    ok = ok and lily.parse_music(deep_real(none_out)) == [("entry", [], base, dots, (1, 1))]
    nodur = lilypond.from_NoteContainer(nc)
    return ok and lily.parse_music(deep_real(nodur)) == [("entry", want, None, 0, (1, 1))]


KEYS = T.all_keys()
BAR_SHAPES = [
    [("N", 0), ("R", 1), ("C", 2)],
    [("C", 3), ("N", 3), ("R", 3), ("N", 0)],
    [("N", 4), ("N", 4), ("N", 5), ("R", 0), ("N", 4)],
    [("R", 6)],
    [],
    [("N", 7), ("C", 8), ("N", 7)],
    [("C", 1), ("N", 0), ("C", 7), ("R", 1), ("C", 0)],
    [("N", 3), ("N", 3), ("N", 3), ("N", 0), ("N", 3), ("R", 3), ("N", 3), ("N", 0), ("N", 4), ("N", 0), ("N", 4)],
    # length denominators (in quarter notes) 4, 3, 5, 3, 16: a coarser, non-dividing subdivision after a finer one
    [("N", 1), ("N", 3), ("N", 4), ("C", 3), ("R", 7)],
]
# value tables per shape slot: (value, base, dots, ratio)
SLOT = [
    (4, 4, 0, (1, 1)),
    (value.dots(8), 8, 1, (1, 1)),
    (2, 2, 0, (1, 1)),
    (value.triplet(8), 8, 0, (3, 2)),
    (value.quintuplet(16), 16, 0, (5, 4)),
    (value.septuplet(8), 8, 0, (7, 4)),
    (0.5, 0.5, 0, (1, 1)),
    (value.dots(16, 2), 16, 2, (1, 1)),
    (1, 1, 0, (1, 1)),
]


def _mk_bar(shape, key, meter, o):
    b = Bar(key, meter)
    want = []
    for kind, si in shape:
        v, base, dots, ratio = SLOT[si]
        if kind == "R":
            c = None
            names = []
        elif kind == "N":
            c = NoteContainer([Note("F#", o)])
            names = [("F#", o)]
        else:
            c = NoteContainer([Note("C", o), Note("Eb", o), Note("G", o + 1)])
            names = [("C", o), ("Eb", o), ("G", o + 1)]
        assume(b.place_notes(c, v))
        want.append((names, v, base, dots, ratio))
    return b, want


def _check_entries(items, want):
    ents = [it for it in items if it[0] == "entry"]
    if len(ents) != len(want):
        return False
    for it, (names, v, base, dots, ratio) in zip(ents, want):
        if it[1] != names or it[2] != base or it[3] != dots:
            return False
        if lily.entry_length(it[2], it[3], it[4]) != Fraction(1) / Fraction(v).limit_denominator(10 ** 6):
            return False
    return True


def c19_ly_bar(ki: int, count: int, si: int, o: int) -> bool:
    key = pick(KEYS, ki)
    shape = pick(BAR_SHAPES, si)
    o = enum(o, P["olo"], P["ohi"] + 1)
    count = enum(count, P["clo"], P["chi"] + 1)
    b, want = _mk_bar(shape, key, (count, 4), o)
    out = lilypond.from_Bar(b)
    items = lily.parse_music(deep_real(out))
    if items[:2] != [("time", count, 4), ("key", T.key_tonic(key), "minor" if T.key_is_minor(key) else "major")]:
        return False
    if not _check_entries(items[2:], want) or len([i for i in items if i[0] != "entry"]) != 2:
        return False
    plain = lily.parse_music(deep_real(lilypond.from_Bar(b, False, False)))
    return _check_entries(plain, want) and len(plain) == len(want)


def c19_ly_track(k1: int, k2: int, m1: int, m2: int, o: int) -> bool:
    keys3 = [pick(["C", "a", "Eb", "f#", "c", "A"], k1), pick(["C", "a", "Eb", "f#", "c", "A"], k2)]
    meters = [pick([(4, 4), (3, 4), (6, 8)], m1), pick([(4, 4), (3, 4), (6, 8)], m2)]
    o = enum(o, 2, 5)
    t = Track()
    wants = []
    seq = [(keys3[0], meters[0]), (keys3[1], meters[1]), (keys3[1], meters[1]), (keys3[0], meters[1])]
    for key, meter in seq:
        b, want = _mk_bar(BAR_SHAPES[0][:2] if meter != (6, 8) else BAR_SHAPES[0][:2], key, meter, o)
        t.add_bar(b)
        wants.append(want)
    c = Composition()
    c.set_title("A Title", "Sub title")
    c.set_author("Some One", "x@y")
    c.add_track(t)
    out = deep_real(lilypond.from_Composition(c))
    hdr, music = lily.split_header(out)
    if hdr != {"title": "A Title", "composer": "Some One", "opus": "Sub title"}:
        return False
    items = lily.parse_music(music)
    if items != lily.parse_music(deep_real(lilypond.from_Track(t))):
        return False
    # walk: key/time markers must appear exactly where the bar differs from the previous one (start: C major, 4/4)
    exp = []
    lastk, lastm = "C", (4, 4)
    for (key, meter), want in zip(seq, wants):
        if meter != lastm:
            exp.append(("time", meter[0], meter[1]))
        if key != lastk:
            exp.append(("key", T.key_tonic(key), "minor" if T.key_is_minor(key) else "major"))
        for names, v, base, dots, ratio in want:
            exp.append(("entry", names, base, dots, (1, 1)))
        lastk, lastm = key, meter
    return items == exp


# ---------------------------------------------------------------- MusicXML
def _kids(node, tag):
    return [c for c in node.childNodes if getattr(c, "tagName", None) == tag]


def _text(node):
    return "".join(c.data for c in node.childNodes if c.nodeType == c.TEXT_NODE)


def _one(node, tag):
    k = _kids(node, tag)
    if len(k) != 1:
        raise ValueError("expected one <%s>, found %d" % (tag, len(k)))
    return k[0]


def _check_measure(m, number, key, meter, want):
    if m.getAttribute("number") != str(number):
        return False
    at = _one(m, "attributes")
    div = int(_text(_one(at, "divisions")))
    k = _one(at, "key")
    if int(_text(_one(k, "fifths"))) != T.key_signature(T.key_tonic(key), T.key_is_minor(key)) or _text(_one(k, "mode")) != ("minor" if T.key_is_minor(key) else "major"):
        return False
    tm = _one(at, "time")
    if _text(_one(tm, "beats")) != str(meter[0]) or _text(_one(tm, "beat-type")) != str(meter[1]):
        return False
    notes = _kids(m, "note")
    flat = []
    for names, v, base, dots, ratio in want:
        q = Fraction(4) / Fraction(base) * (2 - Fraction(1, 2 ** dots)) * Fraction(ratio[1], ratio[0])
        if not names:
            flat.append((None, False, dots, q, ratio))
        for i, nm in enumerate(names):
            flat.append((nm, i > 0, dots, q, ratio))
    if len(notes) != len(flat):
        return False
    for nd, (nm, chord, dots, q, ratio) in zip(notes, flat):
        if nm is None:
            if len(_kids(nd, "rest")) != 1 or _kids(nd, "pitch"):
                return False
        else:
            p = _one(nd, "pitch")
            alter = _kids(p, "alter")
            a = int(_text(alter[0])) if alter else 0
            if _text(_one(p, "step")) != nm[0][0] or a != net(nm[0]) or _text(_one(p, "octave")) != str(nm[1]):
                return False
        if (len(_kids(nd, "chord")) == 1) != chord or len(_kids(nd, "chord")) > 1:
            return False
        if len(_kids(nd, "dot")) != dots:
            return False
        if Fraction(int(_text(_one(nd, "duration"))), div) != q:
            return False
        tmod = _kids(nd, "time-modification")
        if ratio != (1, 1):
            if len(tmod) != 1 or _text(_one(tmod[0], "actual-notes")) != str(ratio[0]) or _text(_one(tmod[0], "normal-notes")) != str(ratio[1]):
                return False
        elif tmod:
            return False
    return True


def c19_xml_dom(ki: int, si: int, o: int, ntr: int) -> bool:
    key = pick(KEYS, ki)
    ntr = enum(ntr, 1, 4)
    c = Composition()
    c.set_title("T")
    wants = []
    for i in range(ntr):
        t = Track(MidiInstrument("Viola") if i == 1 else None)
        t.name = "part %d" % i
        ws = []
        for j, sh in enumerate((pick(BAR_SHAPES, si), BAR_SHAPES[(i + 1) % len(BAR_SHAPES)])):
            b, want = _mk_bar(sh, key, (12, 4), o)
            t.add_bar(b)
            ws.append(want)
        c.add_track(t)
        wants.append(ws)
    root = musicxml._composition2musicxml(c)
    if root.tagName != "score-partwise":
        return False
    plist = _one(root, "part-list")
    sps = _kids(plist, "score-part")
    parts = _kids(root, "part")
    if len(sps) != ntr or len(parts) != ntr:
        return False
    ids = [p.getAttribute("id") for p in parts]
    if len(set(ids)) != ntr or [s.getAttribute("id") for s in sps] != ids:
        return False
    for i in range(ntr):
        if _text(_one(sps[i], "part-name")) != "part %d" % i:
            return False
        ms = _kids(parts[i], "measure")
        if len(ms) != 2:
            return False
        for j in range(2):
            if not _check_measure(ms[j], j + 1, key, (12, 4), wants[i][j]):
                return False
    return True


MARKUP = ["Plain", "a < b & c > d", "\"quoted\" 'single'", "<tag attr=\"x\">&amp;</tag>", "Fünf ♯ émigré", "]]> <!-- -->", "  spaced  out  "]


def c19_xml_text(ti: int, ai: int) -> bool:
    """serialised text: well-formed, titles/authors/names unaltered after XML unescaping"""
    from xml.dom import minidom

    title = pick(MARKUP, ti)
    author = pick(MARKUP, ai)
    c = Composition()
    c.set_title(title)
    c.set_author(author)
    t = Track(Piano())
    t.name = MARKUP[(ti + 3) % len(MARKUP)]
    t.instrument.name = MARKUP[(ai + 5) % len(MARKUP)]
    t.add_notes(NoteContainer(["C", "E"]), 4)
    c.add_track(t)
    e = Track()
    e.add_bar(Bar("C", (4, 4)))
    c.add_track(e)
    text = musicxml.from_Composition(c)

    def parse(s):
        return minidom.parseString(s.encode("utf-8") if isinstance(s, str) else s)

    doc = untraced(parse, deep_real(text))
    root = doc.documentElement

    def grab(tag):
        return [untraced(lambda n=n: "".join(x.data for x in n.childNodes).strip(), ) for n in root.getElementsByTagName(tag)]

    return grab("movement-title") == [title.strip()] and grab("creator") == [author.strip()] and grab("part-name") == [t.name.strip(), "Untitled"] and grab("instrument-name") == [t.instrument.name.strip()] and len(root.getElementsByTagName("measure")) == 2


def c19_xml_single(o: int, vi: int) -> bool:
    v, base, dots, ratio = pick(V, vi)
    n = Note("Bb", o)
    b = Bar("F", (0, 0))
    b.place_notes(n, v)
    t = Track()
    t.add_bar(b)
    c = Composition()
    c.add_track(t)
    root = musicxml._composition2musicxml(c)
    m = _kids(_kids(root, "part")[0], "measure")
    want = [([("Bb", o)], v, base, dots, ratio)]
    return len(m) == 1 and _check_measure(m[0], 1, "F", (0, 0), want)


def claims(tier):
    q = tier == "quick"
    cl = []
    K = 2 if q else 3
    cl.append(Claim("ly_note", c19_ly_note, pre=[lambda name, o: spelled(name, K) and 0 <= o <= 8], timeout=1200 if q else 3000, bounds="LilyPond from_Note: name = letter + {#,b}^<=%d (symbolic), octave 0..8" % K))
    step = 16
    for lo in range(0, len(V), step):
        cl.append(Claim("ly_container[v%d-%d]" % (lo, min(len(V), lo + step) - 1), c19_ly_container, params={"lo": lo, "hi": min(len(V), lo + step)}, group="c19_ly_container", pre=[lambda n, vi, o: 0 <= n <= 5 and P["lo"] <= vi < P["hi"] and 0 <= o <= 3], timeout=1200 if q else 3000, bounds="from_NoteContainer: 0..5 notes x values %d..%d of the %d-value vocabulary (longa/breve, 1-4 dots, 3/5/7-tuplets); first octave 0..3" % (lo, min(len(V), lo + step) - 1, len(V))))
    for si in range(len(BAR_SHAPES)):
        clo, chi = (8, 9) if q else (6, 12)
        if si == 3:
            clo, chi = (8, 9) if q else (8, 40)
        olo, ohi = (2, 3) if q else (1, 5)
        for klo in range(0, 30, 10):
            cl.append(Claim("ly_bar[shape%d,keys%d-%d]" % (si, klo, klo + 9), c19_ly_bar, params={"si": si, "clo": clo, "chi": chi, "olo": olo, "ohi": ohi, "klo": klo}, group="c19_ly_bar", pre=[lambda ki, count, si, o: P["klo"] <= ki < P["klo"] + 10 and si == P["si"]], timeout=1200 if q else 3000, bounds="from_Bar shape %d (%r): keys %d..%d, meter count %d..%d, octave %d..%d (all enumerated: the text renders them); with and without key/time" % (si, BAR_SHAPES[si], klo, klo + 9, clo, chi, olo, ohi)))
    for k0 in range(6):
        cl.append(Claim("ly_track[first key %d]" % k0, c19_ly_track, params={"k0": k0}, group="c19_ly_track", pre=[lambda k1, k2, m1, m2, o: k1 == P["k0"] and 0 <= k2 < 6 and 0 <= m1 < 3 and 0 <= m2 < 3 and 2 <= o <= 4], timeout=1200 if q else 3000, bounds="from_Track / from_Composition: 4 bars over 6x6 key pairs (relative and parallel keys among them) x 3x3 meter pairs: key/time shown exactly on change; header fields"))
    for si in range(len(BAR_SHAPES)):
        cl.append(Claim("xml_dom[shape%d]" % si, c19_xml_dom, params={"si": si}, group="c19_xml_dom", pre=[lambda ki, si, o, ntr: 0 <= ki < (30 if not q else 8) and si == P["si"] and 0 <= o <= 7 and 1 <= ntr <= 3], timeout=1200 if q else 3000, bounds="MusicXML DOM: 1..3 parts x 2 measures, first measure shape %d; %s keys; octave symbolic 0..7; ids, numbers, attributes, notes, chord marks, dots, duration/divisions" % (si, "8" if q else "30")))
    cl.append(Claim("xml_single", c19_xml_single, pre=[lambda o, vi: 0 <= o <= 8 and 0 <= vi < len(V)], timeout=1200 if q else 3000, bounds="one note of every vocabulary value (%d values) in an unbounded bar; octave symbolic" % len(V)))
    cl.append(Claim("xml_text", c19_xml_text, pre=[lambda ti, ai: 0 <= ti < len(MARKUP) and 0 <= ai < len(MARKUP)], timeout=1200, bounds="serialised MusicXML re-parsed: %d markup strings as title / author / track name / instrument name; an empty bar" % len(MARKUP)))
    return cl
