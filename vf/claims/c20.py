"""C20  Tunings and tablature (extra/tunings.py, extra/tablature.py)."""
from vf.claim import Claim, assume, deep_real, enum, fork, pick, raises_, real, untraced
from vf.ref import chords as RC
from vf.ref import tab
from vf.ref import theory as T
from vf.ref.theory import pc

from mingus.containers import Bar, Composition, Note, NoteContainer, Track
from mingus.core import chords
from mingus.core.mt_exceptions import RangeError
from mingus.extra import tablature, tunings
from mingus.extra.tablature import FingerError

P = {}
ASSUMPTIONS = [
    "the registry of tunings is read from the library at run time; tuning / instrument / chord dimensions are enumerated, pitches, frets and string numbers are symbolic where stated",
    "fingering specification: all assignments of distinct strings to the notes, each sounding its note at a fret 0..24, whose non-open frets span less than max_distance; order: non-decreasing total fret number",
    "tablature is read back by vf/ref/tab.py: equally long string lines, one per string, fret numbers grouped by the text column they end in",
]
OUTSIDE = ["tunings with courses in the tablature claims (the renderer has no notion of courses)", "empty bars in tablature", "page widths below the stated minimum", "find_chord_fingering on tunings outside the listed guitar-family ones"]


def _all_tunings():
    out = []
    for ikey in sorted(tunings._known):
        name, d = tunings._known[ikey]
        for dkey in sorted(d):
            out.append(d[dkey])
    return out


TUN = _all_tunings()


def _open(t):
    return [int(x[0] if isinstance(x, list) else x) for x in t.tuning]


def c20_find_frets(ti: int, p: int, maxfret: int) -> bool:
    t = pick(TUN, ti)
    got = t.find_frets(Note(p), maxfret)
    opens = _open(t)
    if len(got) != len(opens):
        return False
    for g, o in zip(got, opens):
        d = p - o
        if 0 <= d <= maxfret:
            if g != d:
                return False
        elif g is not None:
            return False
    return True


def c20_get_note(ti: int, s: int, f: int) -> bool:
    t = pick(TUN, ti)
    opens = _open(t)
    if 0 <= s < len(opens) and 0 <= f <= 24:
        s = enum(s, 0, len(opens))
        n = t.get_Note(s, f)
        if not (int(n) == opens[s] + f and n.string == s and n.fret == f):
            return False
        # the returned note is the caller's: changing it must not retune the registered tuning
        n.octave = n.octave + 1
        n.name = "C"
        return _open(t) == opens
    return raises_(RangeError, t.get_Note, s, f)


def _prefixes():
    names = sorted(set(tunings._known[k][0] for k in tunings._known))
    out = []
    for n in names:
        for k in (1, 2, 4, len(n)):
            if n[:k] not in out:
                out.append(n[:k])
    out += ["zz", "GUITAR", "bass g"]
    return out


PREF = _prefixes()


def _matches(t, prefix, ns, nc):
    keys = [k for k in tunings._known]
    up = prefix.upper()
    inst = t.instrument.upper()
    if up in keys:
        if inst != up:
            return False
    elif not inst.startswith(up):
        return False
    if ns is not None and t.count_strings() != ns:
        return False
    if nc is not None and t.count_courses() != nc:
        return False
    return True


def c20_lookup(pi: int, ns: int, nc: int, use_ns: bool, use_nc: bool) -> bool:
    prefix = pick(P["pref"], pi)
    a = ns if fork(use_ns) else None
    b = enum(nc, 0, 4) if fork(use_nc) else None
    got = tunings.get_tunings(prefix, a, b)
    want = [t for t in TUN if _matches(t, prefix, a, b)]
    if sorted(id(x) for x in got) != sorted(id(x) for x in want):
        return False
    one = tunings.get_tuning(prefix, "", a, b)
    if want:
        return one is not None and _matches(one, prefix, a, b)
    return one is None


def c20_lookup_desc(ti: int, k: int, drop: bool, use_counts: bool) -> bool:
    """lookup by instrument and description prefix: the tuning returned has that instrument and a description
    starting with the given text (and the given counts); text that no description of the instrument starts with
    (here: a piece cut from inside a description) finds nothing"""
    t = pick(TUN, ti)
    d = t.description
    k = enum(k, 0, 14)
    lo = 1 if fork(drop) else 0
    piece = d[lo : lo + k] if k < 13 else d[lo:]
    ns = t.count_strings() if fork(use_counts) else None
    nc = t.count_courses() if use_counts else None
    cands = [x for x in TUN if x.instrument == t.instrument and x.description.upper().startswith(piece.upper()) and (ns is None or (x.count_strings() == ns and x.count_courses() == nc))]
    got = tunings.get_tuning(t.instrument, piece, ns, nc)
    if not cands:
        return got is None
    return got is not None and any(got is x for x in cands)


SMALL = [t for t in TUN if not any(isinstance(x, list) for x in t.tuning)]


def _spec_fingerings(opens, pitches, max_distance):
    res = []

    def rec(k, used, acc):
        if k == len(pitches):
            nz = [f for _, f in acc if f != 0]
            if not nz or max(nz) - min(nz) < max_distance:
                res.append(list(acc))
            return
        for s, o in enumerate(opens):
            if s in used:
                continue
            f = pitches[k] - o
            if 0 <= f <= 24:
                rec(k + 1, used + [s], acc + [(s, f)])

    rec(0, [], [])
    return res


def c20_fingering(ti: int, p1: int, p2: int, p3: int, n: int, md: int) -> bool:
    t = pick(P["tunings"], ti)
    n = enum(n, 1, P["maxn"] + 1)
    md = enum(md, 2, 7)
    opens = _open(t)
    ps = [p1, p2, p3][:n]
    for k in range(n, 3):
        assume([p1, p2, p3][k] == 0)
    lo = min(opens)
    for p in ps:
        assume(lo - 2 <= p <= lo + P["span"])
    got = t.find_fingering([Note(p) for p in ps], md)
    want = _spec_fingerings(opens, ps, md)
    if len(got) != len(want):
        return False
    for g in got:
        if list(g) not in want:
            return False
    for w in want:
        if w not in [list(g) for g in got]:
            return False
    tot = [sum(f for _, f in g) for g in got]
    return tot == sorted(tot)


def c20_fingering_frets(f1: int, f2: int, f3: int) -> bool:
    """three notes given as (string, fret) positions with symbolic frets: the fingering list equals the
    brute-force specification (so in particular it contains this very position iff its span allows)"""
    t = P["tuning"]
    s1, s2, s3 = P["strings"]
    md = P["md"]
    opens = _open(t)
    f1, f2, f3 = enum(f1, 0, 9), enum(f2, 0, 9), enum(f3, 0, 9)  # enumerated: the search is combinatorial, not arithmetic
    ps = [opens[s1] + f1, opens[s2] + f2, opens[s3] + f3]
    got = t.find_fingering([Note(p) for p in ps], md)
    want = _spec_fingerings(opens, ps, md)
    if len(got) != len(want):
        return False
    gl = [list(g) for g in got]
    for g in gl:
        if g not in want:
            return False
    for w in want:
        if w not in gl:
            return False
    tot = [sum(f for _, f in g) for g in got]
    return tot == sorted(tot)


GUITARS = [t for t in SMALL if t.count_strings() == 6 and t.instrument.lower().startswith("guitar")][:4] + [t for t in SMALL if t.count_strings() == 4][:2]
CHORDS = ["", "m", "7", "m7", "M7", "dim", "sus4", "6"]
ROOTS12 = ["C", "C#", "D", "Eb", "E", "F", "F#", "G", "Ab", "A", "Bb", "B"]


def _fingers(fing):
    return tunings.fingers_needed(fing)


def c20_chord_fingering(ti: int, ci: int, ri: int) -> bool:
    t = pick(GUITARS, ti)
    sh = pick(CHORDS, ci)
    root = pick(ROOTS12, ri)
    names = chords.from_shorthand(root + sh)
    pcs = set(pc(x) for x in names)
    opens = _open(t)
    res = t.find_chord_fingering(names)
    for fing in res:
        if len(fing) != len(opens):
            return False
        sounding = set()
        nz = []
        for s, f in enumerate(fing):
            if f is None:
                continue
            if not (0 <= f <= 18):
                return False
            sounding.add((opens[s] + f) % 12)
            if f != 0:
                nz.append(f)
        if not sounding <= pcs or not pcs <= sounding:
            return False
        if nz and max(nz) - min(nz) >= 4:
            return False
        if _fingers(fing) > 4:
            return False
    # a tighter finger limit filters the same list, whichever of the two is asked for first
    lim = pick([2, 3, 1], ci % 3)
    if ri % 2:
        t2 = pick(GUITARS, (ti + 1) % len(GUITARS))
        low = t2.find_chord_fingering(names, max_fingers=lim)
        full = t2.find_chord_fingering(names)
    else:
        low = t.find_chord_fingering(names, max_fingers=lim)
        full = res
    return low == [a for a in full if _fingers(a) <= lim]


def _read(text, t):
    return untraced(lambda: tab.read_block(tab.staff_lines(text, len(t.tuning)), len(t.tuning)))


def c20_tab_note(ti: int, p: int, width: int) -> bool:
    t = pick(P["tunings"], ti)
    width = enum(width, 20, 24) if P.get("narrow") else pick([40, 80, 33], width)
    opens = _open(t)
    playable = any(0 <= p - o <= 24 for o in opens)
    if not playable:
        return raises_(RangeError, tablature.from_Note, Note(p), width, t)
    text = deep_real(tablature.from_Note(Note(p), width, t))
    cols = _read(text, t)
    if len(cols) != 1 or len(cols[0]) != 1:
        return False
    (s, f), = cols[0].items()
    return opens[s] + f == p


def c20_tab_container(ti: int, p1: int, d: int, width: int) -> bool:
    t = pick(P["tunings"], ti)
    width = pick([40, 80, 33], width)
    opens = _open(t)
    p2 = p1 + d
    ns = [Note(p1), Note(p2)]
    fing = t.find_fingering(ns)
    if not fing:
        return raises_(FingerError, tablature.from_NoteContainer, NoteContainer(ns), width, t)
    text = deep_real(tablature.from_NoteContainer(NoteContainer(ns), width, t))
    cols = _read(text, t)
    if len(cols) < 1:
        return False
    merged = {}
    for c in cols:
        merged.update(c)
    return sorted(opens[s] + f for s, f in merged.items()) == sorted([p1, p2]) and len(cols) <= 2


ENTRY_SHAPES = [
    [("N", 4), ("N", 4), ("R", 4), ("C", 4)],
    [("C", 2), ("N", 8), ("N", 8), ("R", 4)],
    [("N", 8), ("R", 8), ("N", 4), ("N", 2)],
]


CHORD_FRETS = [(3, 2), (10, 9), (7, 12), (12, 0), (11, 10)]


def _mk_tab_bar(shape, base, t, cf=0):
    opens = _open(t)
    b = Bar("C", (4, 4))
    want = []
    k = 0
    for kind, v in shape:
        if kind == "R":
            b.place_rest(v)
            want.append([])
        elif kind == "N":
            p = base + (k * 5) % 9
            b.place_notes(Note(p), v)
            want.append([p])
            k += 1
        else:
            p = opens[0] + CHORD_FRETS[cf][0]
            q = opens[1] + CHORD_FRETS[cf][1]
            b.place_notes(NoteContainer([Note(p), Note(q)]), v)
            want.append(sorted(set([p, q])))
    return b, want


def c20_tab_bar(ti: int, si: int, base: int, wi: int, cf: int) -> bool:
    t = pick(P["tunings"], ti)
    shape = pick(ENTRY_SHAPES, si)
    width = pick([40, 60, 47], wi)
    cf = enum(cf, 0, len(CHORD_FRETS))
    opens = _open(t)
    assume(opens[1] <= base <= opens[1] + 10)
    b, want = _mk_tab_bar(shape, base, t, cf)
    lines = tablature.from_Bar(b, width, t, collapse=False)
    text = deep_real("\n".join(lines))
    cols = _read(text, t)
    got = [sorted(opens[s] + f for s, f in c.items()) for c in cols]
    return got == [w for w in want if w]


def c20_tab_track(ti: int, base: int, wi: int, comp: bool) -> bool:
    t = pick(P["tunings"], ti)
    width = pick([80, 120, 60], wi)
    opens = _open(t)
    assume(opens[1] <= base <= opens[1] + 10)
    tr = Track()
    tr.set_tuning(t)
    wants = []
    for sh in ENTRY_SHAPES[:2]:
        b, want = _mk_tab_bar(sh, base, t)
        tr.add_bar(b)
        wants.append(want)
    if fork(comp):
        c = Composition()
        c.add_track(tr)
        text = deep_real(tablature.from_Composition(c, width))
    else:
        text = deep_real(tablature.from_Track(tr, width))
    n = len(opens)
    staff = untraced(lambda: tab.staff_lines(text, n))
    if len(staff) % n != 0 or not staff:
        return False
    got = []
    for k in range(0, len(staff), n):
        for c in untraced(lambda k=k: tab.read_block(staff[k : k + n], n)):
            got.append(sorted(opens[s] + f for s, f in c.items()))
    flat = [w for want in wants for w in want if w]
    return got == flat


def c20_no_fingering(ti: int) -> bool:
    t = pick(P["tunings"], ti)
    opens = _open(t)
    far = [Note(opens[0] + 1), Note(opens[0] + 2), Note(opens[0] + 3), Note(opens[0] + 4)] if len(opens) >= 4 else [Note(opens[0] + 1), Note(opens[0] + 1)]
    b = Bar("C", (4, 4))
    b.place_notes(NoteContainer([Note(max(opens) + 40), Note(0)]), 4)
    return raises_(FingerError, tablature.from_Bar, b, 40, t) and raises_(RangeError, tablature.from_Note, Note(max(opens) + 30), 40, t) and raises_(RangeError, tablature.from_Note, Note(max(0, min(opens) - 1)), 40, t)


def claims(tier):
    q = tier == "quick"
    cl = []
    n = len(TUN)
    step = 10
    for lo in range(0, n, step):
        hi = min(n, lo + step)
        cl.append(Claim("find_frets[t%d-%d]" % (lo, hi - 1), c20_find_frets, params={"lo": lo, "hi": hi}, group="c20_find_frets", pre=[lambda ti, p, maxfret: P["lo"] <= ti < P["hi"] and 0 <= p <= 127 and 0 <= maxfret <= 30], timeout=1200 if q else 3000, bounds="registered tunings %d..%d of %d; note pitch 0..127 and maxfret 0..30 symbolic" % (lo, hi - 1, n)))
        B = 999 if q else 10 ** 6
        cl.append(Claim("get_note[t%d-%d]" % (lo, hi - 1), c20_get_note, params={"lo": lo, "hi": hi, "B": B}, group="c20_get_note", pre=[lambda ti, s, f: P["lo"] <= ti < P["hi"] and -P["B"] <= s <= P["B"] and -P["B"] <= f <= P["B"]], timeout=1200 if q else 3000, bounds="tunings %d..%d; string and fret: every integer with |x| <= %d (symbolic; the error message renders them)" % (lo, hi - 1, B)))
    pref = PREF[::6] if q else PREF
    for lo_ in range(0, len(TUN), 20):
        cl.append(Claim("lookup_desc[t%d-%d]" % (lo_, min(len(TUN), lo_ + 20) - 1), c20_lookup_desc, params={"lo": lo_}, group="c20_lookup_desc", pre=[lambda ti, k: P["lo"] <= ti < min(len(TUN), P["lo"] + 20) and 0 <= k <= 13], timeout=1200 if q else 3000, bounds="get_tuning(instrument, text): text = the first 0..12 characters or all of a registered description, or the same cut one character in (usually no prefix of any description); with and without the string / course counts; tunings %d..%d" % (lo_, min(len(TUN), lo_ + 20) - 1)))
    for lo in range(0, len(pref), 6):
        sub = pref[lo : lo + 6]
        cl.append(Claim("lookup[%d-%d]" % (lo, lo + len(sub) - 1), c20_lookup, params={"pref": sub}, group="c20_lookup", pre=[lambda pi, ns, nc: 0 <= pi < len(P["pref"]) and 0 <= ns <= 8 and 0 <= nc <= 3], timeout=1200 if q else 3000, bounds="get_tunings / get_tuning: instrument strings %r; string count 0..8 symbolic, course count 0..3, each optional" % (sub,)))
    small = [t for t in SMALL if t.count_strings() <= 4][:: (12 if q else 3)]
    for k, t in enumerate(small):
        cl.append(Claim("fingering[%s/%s]" % (t.instrument, t.description), c20_fingering, params={"tunings": [t], "maxn": 2, "span": 9 if q else 20}, group="c20_fingering", pre=[lambda ti, n, md: ti == 0 and 1 <= n <= P["maxn"] and ((md == 4) if P["span"] < 10 else (2 <= md <= 5))], timeout=1500 if q else 3200, bounds="find_fingering on %s %s: 1..2 notes with pitches symbolic within %d semitones above the lowest string, max_distance %s, against the brute-force specification" % (t.instrument, t.description, 9 if q else 20, "4" if q else "2..5")))
    six = [t for t in SMALL if t.count_strings() == 6][: (1 if q else 4)]
    for t in six:
        cl.append(Claim("fingering6[%s/%s]" % (t.instrument, t.description), c20_fingering, params={"tunings": [t], "maxn": 2 if q else 3, "span": 7 if q else 16}, group="c20_fingering", pre=[lambda ti, n, md: ti == 0 and 1 <= n <= P["maxn"] and md == 4], timeout=1500 if q else 3200, bounds="find_fingering on the six-string %s %s: 1..%d notes, pitches symbolic within %d semitones, max_distance 4" % (t.instrument, t.description, 2 if q else 3, 7 if q else 16)))
    g = [t for t in SMALL if t.count_strings() == 6][0]
    import itertools
    triples = [(0, 1, 2), (1, 2, 4), (3, 4, 5)] if q else list(itertools.combinations(range(6), 3))
    for tr in triples:
        for md in ((5,) if q else (3, 5, 6)):
          for f1lo, f1hi in ((0, 2), (3, 5), (6, 8)):
            cl.append(Claim("fingering3[strings=%d%d%d,md=%d,f1=%d-%d]" % (tr + (md, f1lo, f1hi)), c20_fingering_frets, params={"tuning": g, "strings": tr, "md": md, "f1lo": f1lo, "f1hi": f1hi}, group="c20_fingering", pre=[lambda f1, f2, f3: P["f1lo"] <= f1 <= P["f1hi"] and 0 <= f2 <= 8 and 0 <= f3 <= 8], timeout=1500 if q else 3200, bounds="find_fingering on %s %s: three notes at frets 0..8 (enumerated) of strings %r, max_distance %d, against the brute-force specification" % (g.instrument, g.description, tr, md)))
    for ti in range(len(GUITARS) if not q else 2):
        cl.append(Claim("chord_fingering[%d]" % ti, c20_chord_fingering, params={"ti": ti}, group="c20_chord_fingering", pre=[lambda ti, ci, ri: ti == P["ti"] and 0 <= ci < (len(CHORDS) if not q else 3) and 0 <= ri < (12 if not q else 4)], timeout=1500 if q else 3200, per_path=120, bounds="find_chord_fingering on tuning %r: %d chord types x %d roots: every result sounds only and all chord pitch classes, span < 4, fingers <= 4, one entry per string" % (GUITARS[ti].description, len(CHORDS) if not q else 3, 12 if not q else 4)))
    tabt = SMALL[:: (15 if q else 4)]
    for t in tabt:
        tag = "%s/%s" % (t.instrument, t.description)
        par = {"tunings": [t]}
        cl.append(Claim("tab_note[%s]" % tag, c20_tab_note, params=par, group="c20_tab_note", pre=[lambda ti, p, width: ti == 0 and 0 <= p <= 127 and 0 <= width < 3], timeout=1500 if q else 3200, bounds="tablature.from_Note on %s, pitch symbolic 0..127, widths 40/80/33: decoded pitch or RangeError" % tag))
        cl.append(Claim("tab_container[%s]" % tag, c20_tab_container, params=par, group="c20_tab_container", pre=[lambda ti, p1, d, width: ti == 0 and 30 <= p1 <= (60 if q else 80) and 1 <= d <= (7 if q else 12) and 0 <= width < (1 if q else 3)], timeout=1500 if q else 3200, bounds="from_NoteContainer on %s: two notes, lower pitch and distance symbolic: decoded pitches or FingerError" % tag))
        cl.append(Claim("tab_bar[%s]" % tag, c20_tab_bar, params=par, group="c20_tab_bar", pre=[lambda ti, si, base, wi, cf: ti == 0 and 0 <= si < len(ENTRY_SHAPES) and 0 <= wi < (2 if q else 3) and 0 <= cf < len(CHORD_FRETS)], timeout=1500 if q else 3200, bounds="from_Bar on %s: %d entry shapes (notes, chords at 5 fret pairs incl. one- and two-digit frets together, rests) x widths; base pitch symbolic within the second string's first 10 frets" % (tag, len(ENTRY_SHAPES))))
        cl.append(Claim("tab_track[%s]" % tag, c20_tab_track, params=par, group="c20_tab_track", pre=[lambda ti, base, wi: ti == 0 and 0 <= wi < 3], timeout=1500 if q else 3200, bounds="from_Track / from_Composition on %s: two bars, 3 page widths" % tag))
    cl.append(Claim("no_fingering", c20_no_fingering, params={"tunings": tabt}, pre=[lambda ti: 0 <= ti < len(P["tunings"])], timeout=600, bounds="unplayable entries raise FingerError / RangeError (%d tunings)" % len(tabt)))
    return cl
