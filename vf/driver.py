"""Per-property orchestration: shards -> worker processes -> replay -> known findings -> evidence -> exit code.

Exit codes: 0 nothing violated (KNOWN-FINDING lines allowed); 1 at least one replayed violation not listed in
known_findings.json (VIOLATION line printed); 2 harness error (vacuous claim, non-reproducing counterexample,
engine crash) - reserved, prints no VIOLATION line.
"""
import concurrent.futures
import hashlib
import json
import os
import shutil
import subprocess
import sys
import tempfile
import time

import vf

PY = sys.executable
ENV = dict(os.environ)
ENV["PYTHONPATH"] = vf.VERIF + (":" + ENV["PYTHONPATH"] if ENV.get("PYTHONPATH") else "")
ENV["PYTHONHASHSEED"] = "0"
ENV.pop("PYTHONDONTWRITEBYTECODE", None)
ENV["PYTHONDONTWRITEBYTECODE"] = "1"


def sh(args, timeout=None):
    p = subprocess.run(args, cwd=vf.VERIF, env=ENV, stdout=subprocess.PIPE, stderr=subprocess.PIPE, timeout=timeout, text=True)
    return p.returncode, p.stdout, p.stderr


def load_known(prop):
    path = os.path.join(vf.VERIF, "known_findings.json")
    if not os.path.exists(path):
        return [], []
    with open(path) as f:
        data = json.load(f)
    known = [k for k in data.get("known", []) if k["property"] == prop]
    fixed = [k for k in data.get("fixed", []) if k.startswith("fixed: property=%s " % prop)]
    return known, fixed


def run_shard(prop, tier, c, tmpdir, known):
    out = os.path.join(tmpdir, hashlib.sha1(c["name"].encode()).hexdigest() + ".json")
    hard = c["timeout"] * 2 + 180
    t0 = time.time()
    try:
        rc, so, se = sh([PY, "-m", "vf.worker", "analyze", prop, tier, c["name"], out, json.dumps(known)], timeout=hard)
    except subprocess.TimeoutExpired:
        return {"name": c["name"], "group": c["group"], "bounds": c["bounds"], "status": "UNKNOWN", "paths": 0, "confirmed_paths": 0, "note": "worker killed after %ds wall" % hard, "wall_s": time.time() - t0}
    if not os.path.exists(out):
        return {"name": c["name"], "group": c["group"], "bounds": c["bounds"], "status": "ERROR", "error": (se or so)[-3000:], "paths": 0, "confirmed_paths": 0}
    with open(out) as f:
        res = json.load(f)
    bad = [l for l in se.splitlines() if "ASSERTION VIOLATION" in l or l.startswith("(error")]
    if bad and res.get("status") == "CONFIRMED":
        res["status"] = "UNKNOWN"
        res["note"] = "solver printed an internal error: " + bad[0][:200]
    return res


def replay(prop, tier, name, args, replay_dir):
    os.makedirs(replay_dir, exist_ok=True)
    blob = json.dumps({"property": prop, "tier": tier, "claim": name, "args": args}, sort_keys=True)
    h = hashlib.sha1(blob.encode()).hexdigest()[:10]
    safe = "".join(ch if ch.isalnum() else "_" for ch in name)[:60]
    path = os.path.join(replay_dir, "%s-%s-%s.json" % (prop, safe, h))
    with open(path, "w") as f:
        f.write(blob)
    try:
        rc, so, se = sh([PY, "-m", "vf.worker", "replay", prop, tier, name, path], timeout=300)
    except subprocess.TimeoutExpired:
        rc, so, se = 1, "REPLAY violated: did not terminate within 300 s", ""
    return rc, path, (so + se)[-2500:]


def main(argv):
    import argparse

    ap = argparse.ArgumentParser()
    ap.add_argument("prop")
    ap.add_argument("--tier", default=os.environ.get("VERIF_TIER", "quick"))
    ap.add_argument("--replay")
    ap.add_argument("--only", action="append")
    ap.add_argument("--jobs", type=int, default=int(os.environ.get("VF_JOBS", "16")))
    ap.add_argument("--no-evidence", action="store_true")
    a = ap.parse_args(argv)
    prop, tier = a.prop.upper(), a.tier
    seed = int(os.environ.get("VERIF_SEED", "0") or 0)
    t_start = time.time()

    if a.replay:
        with open(a.replay) as f:
            d = json.load(f)
        rc, so, se = sh([PY, "-m", "vf.worker", "replay", d["property"], d["tier"], d["claim"], a.replay])
        print(so + se)
        if rc == 1:
            print("VIOLATION property=%s replay=%s" % (d["property"], a.replay))
        return 1 if rc == 1 else 0

    # 0. stub contracts, checked concretely on every run
    rc, so, se = sh([PY, "-c", "import vf.ext as e; print(e.selftest())"])
    if rc != 0:
        print("HARNESS-ERROR stub selftest failed:\n" + se[-2000:])
        return 2
    selftests = int(so.strip().splitlines()[-1])

    rc, so, se = sh([PY, "-m", "vf.worker", "list", prop, tier])
    if rc != 0:
        print("HARNESS-ERROR cannot load claims for %s:\n%s" % (prop, se[-3000:]))
        return 2
    meta = json.loads(so.strip().splitlines()[-1])
    claims = meta["claims"]
    if a.only:
        claims = [c for c in claims if any(o in c["name"] for o in a.only)]
    known, fixed = load_known(prop)

    tmpdir = tempfile.mkdtemp(prefix="vf-%s-" % prop)
    results = []
    try:
        order = sorted(claims, key=lambda c: -c["timeout"])
        with concurrent.futures.ThreadPoolExecutor(max_workers=a.jobs) as ex:
            futs = {ex.submit(run_shard, prop, tier, c, tmpdir, known): c for c in order}
            for fu in concurrent.futures.as_completed(futs):
                r = fu.result()
                results.append(r)
                print(
                    "claim %-50s %-10s paths=%-6s confirmed=%-6s queries=%-7s solver=%.1fs cpu=%.1fs"
                    % (r["name"], r["status"], r.get("paths"), r.get("confirmed_paths"), r.get("solver_queries", 0), r.get("solver_s", 0.0), r.get("cpu_s", 0.0)),
                    flush=True,
                )
    finally:
        shutil.rmtree(tmpdir, ignore_errors=True)
    results.sort(key=lambda r: r["name"])

    replay_dir = os.path.join(vf.VERIF, "evidence", "replay")
    violations, harness_errors, inconclusive = [], [], []
    abstract_cex = []
    inductive = {c["name"]: c.get("inductive") for c in claims}
    for r in results:
        st = r["status"]
        if st == "CONFIRMED":
            tw = r.get("twin") or {}
            # non-vacuity: at least one path passed every precondition, ran the body and had its assertion
            # evaluated.  The twin (same claim, postcondition False) supplies the sample input; if it runs out of
            # its short budget on a loaded machine the confirmed-path count alone is the witness.
            if r.get("confirmed_paths", 0) < 1 or tw.get("status") in ("CONFIRMED", "PRE_UNSAT"):
                harness_errors.append("claim %s is vacuous: reachability twin %s, confirmed paths %s" % (r["name"], tw.get("status"), r.get("confirmed_paths")))
        elif st == "REFUTED":
            if r.get("cex") is None:
                harness_errors.append("claim %s refuted without a model: %s" % (r["name"], r.get("messages")))
                continue
            rc, path, out = replay(prop, tier, r["name"], r["cex"], replay_dir)
            r["replay"] = {"rc": rc, "path": path, "out": out}
            if rc == 1:
                violations.append((r["name"], path, out, r.get("messages")))
            elif inductive.get(r["name"]):
                # counterexample lives in an abstract pre-state (inductive step); without a concrete history
                # that reaches it, it is reported as inconclusive: the concrete companion claims of the same
                # property (literal histories / fills) are the ones that can turn it into a VIOLATION
                inconclusive.append(r["name"])
                abstract_cex.append({"claim": r["name"], "state": r.get("cex")})
            else:
                harness_errors.append("counterexample of %s does not reproduce on the real code (rc=%d): %s\n%s\nmessages=%s" % (r["name"], rc, path, out, r.get("messages")))
        elif st == "UNKNOWN":
            inconclusive.append(r["name"])
        elif st == "PRE_UNSAT":
            harness_errors.append("claim %s: preconditions unsatisfiable: %s" % (r["name"], r.get("messages")))
        else:
            harness_errors.append("claim %s: engine error:\n%s" % (r["name"], r.get("error", r.get("messages"))))

    # known findings: probe each listed input concretely; it is printed iff it still fails
    known_lines = []
    for k in known:
        for probe in k.get("probes", []):
            rc, path, out = replay(prop, tier, probe["claim"], probe["args"], os.path.join(vf.VERIF, "evidence", "replay"))
            if rc == 1:
                known_lines.append("KNOWN-FINDING: property=%s %s [%s]" % (prop, k["what"], probe.get("label", probe["claim"])))
            elif rc == 3:
                harness_errors.append("known-finding probe %s is outside its claim" % probe)
            else:
                print("note: known finding no longer reproduces: %s [%s]" % (k["what"], probe.get("label", "")))
            try:
                os.remove(path)
            except OSError:
                pass

    for n in inconclusive:
        if any(a["claim"] == n for a in abstract_cex):
            print("INCONCLUSIVE claim=%s (inductive step refuted from an abstract pre-state %s; no concrete history reproduces it here - see the concrete companion claims)" % (n, [a["state"] for a in abstract_cex if a["claim"] == n][0]))
        else:
            print("INCONCLUSIVE claim=%s (time budget or solver unknown; not counted as discharged)" % n)
    for l in known_lines:
        print(l)
    for e in harness_errors:
        print("HARNESS-ERROR " + e)
    for name, path, out, msgs in violations:
        print("counterexample for claim %s reproduced on the real code:\n%s" % (name, out.strip()))
        print("VIOLATION property=%s replay=%s" % (prop, path))

    wall = time.time() - t_start
    if not a.no_evidence and not a.only:
        write_evidence(prop, tier, seed, meta, results, violations, harness_errors, inconclusive, known_lines, fixed, selftests, wall)
    print(
        "%s %s: %d claims, %d confirmed, %d inconclusive, %d violations, %d known-finding lines, %d harness errors, %.0fs"
        % (prop, tier, len(results), sum(1 for r in results if r["status"] == "CONFIRMED"), len(inconclusive), len(violations), len(known_lines), len(harness_errors), wall)
    )
    if violations:
        return 1
    if harness_errors:
        return 2
    return 0


def write_evidence(prop, tier, seed, meta, results, violations, harness_errors, inconclusive, known_lines, fixed, selftests, wall):
    paths = sum(int(r.get("paths") or 0) for r in results)
    conf = sum(int(r.get("confirmed_paths") or 0) for r in results)
    fenc = sorted(set(f for r in results for f in r.get("functions_encoded", [])))
    assumptions = []
    for r in results:
        for x in r.get("assumptions", []):
            if x not in assumptions:
                assumptions.append(x)
    assumptions += [x for x in meta.get("assumptions", []) if x not in assumptions]
    resets = sorted(set(x for r in results for x in r.get("state_reset", [])))
    if resets:
        assumptions.append("module state reset at the start of every path: " + ", ".join(resets))
    samples = []
    for r in results:
        tw = r.get("twin") or {}
        if tw.get("sample") is not None and len(samples) < 40:
            samples.append({"claim": r["name"], "input": tw["sample"]})
    if not samples:
        samples = [{"claim": r["name"], "input": None} for r in results[:3]]
    ev = {
        "property_id": prop,
        "tier": tier,
        "seed": seed,
        "level": "model_checking",
        "coverage": {
            "evaluations": paths,
            "distinct_nontrivial": conf,
            "rule": "one evaluation = one symbolic execution path of a claim body through the real mingus code (CrossHair, z3 decides every branch); distinct by construction (the path tree never repeats a decision sequence); non-trivial = the path satisfied every precondition, returned from the real code and had its final assertion evaluated (CrossHair num_confirmed_paths)",
            "samples": samples,
            "obligations": len(results),
            "discharged": sum(1 for r in results if r["status"] == "CONFIRMED"),
            "exhaustive": bool(results) and all(r["status"] == "CONFIRMED" for r in results),
            "inconclusive": inconclusive,
            "solver_queries": sum(int(r.get("solver_queries") or 0) for r in results),
            "solver_unknown_answers": sum(int(r.get("solver_unknown") or 0) for r in results),
            "solver_s": round(sum(float(r.get("solver_s") or 0) for r in results), 2),
            "cpu_s": round(sum(float(r.get("cpu_s") or 0) for r in results), 2),
            "functions_encoded": fenc,
            "bounds": {r["name"]: r.get("bounds", "") for r in results},
            "per_claim": {r["name"]: {"status": r["status"], "paths": r.get("paths"), "confirmed_paths": r.get("confirmed_paths"), "solver_queries": r.get("solver_queries"), "solver_s": r.get("solver_s"), "cpu_s": r.get("cpu_s")} for r in results},
            "outside_the_claim": meta.get("outside", []),
            "stub_contract_checks": selftests,
            "known_findings_reported": known_lines,
            "fixed_entries": fixed,
            "harness_errors": harness_errors[:10],
            "engine": "crosshair-tool 0.0.110 symbolic execution of /repo's current modules, z3 %s" % _z3v(),
        },
        "assumptions": assumptions,
        "wall_s": round(wall, 2),
        "violations": len(violations),
    }
    os.makedirs(os.path.join(vf.VERIF, "evidence"), exist_ok=True)
    with open(os.path.join(vf.VERIF, "evidence", "%s.json" % prop), "w") as f:
        json.dump(ev, f, indent=1, sort_keys=True)


def _z3v():
    try:
        import z3

        return z3.get_version_string()
    except Exception:
        return "?"


if __name__ == "__main__":
    sys.exit(main(sys.argv[1:]))
