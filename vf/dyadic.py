"""Exact dyadic stand-in for a double: value = num * 2**exp with num a (possibly symbolic) int and exp a
concrete int.  Implements exactly the operations meter.valid_beat_duration performs (compare with an int,
% 2, / 2).  All of them are exact in IEEE-754 binary64 for the values concerned (fmod is always exact;
halving a normal double is exact), so the integer arithmetic here has the same truth values as the real
float code.  validate() checks that concretely against real doubles on every run."""


class Dy(object):
    __slots__ = ("num", "exp")

    def __init__(self, num, exp):
        self.num = num
        self.exp = exp

    def _cmp_int(self, k):
        """sign of self - k for a concrete int k: returns (lhs, rhs) ints to compare"""
        if self.exp >= 0:
            return self.num * (2 ** self.exp), k
        return self.num, k * (2 ** (-self.exp))

    def __eq__(self, k):
        a, b = self._cmp_int(k)
        return a == b

    def __ne__(self, k):
        a, b = self._cmp_int(k)
        return a != b

    def __gt__(self, k):
        a, b = self._cmp_int(k)
        return a > b

    def __lt__(self, k):
        a, b = self._cmp_int(k)
        return a < b

    def __ge__(self, k):
        a, b = self._cmp_int(k)
        return a >= b

    def __le__(self, k):
        a, b = self._cmp_int(k)
        return a <= b

    __hash__ = None

    def __mod__(self, k):
        """python float % for a concrete positive int k: result has the sign of k (>= 0)"""
        assert type(k) is int and k > 0
        if self.exp >= 0:
            return Dy((self.num * (2 ** self.exp)) % k, 0)
        return Dy(self.num % (k * 2 ** (-self.exp)), self.exp)

    def __truediv__(self, k):
        assert k == 2
        return Dy(self.num, self.exp - 1)

    def to_float(self):
        return float(self.num) * (2.0 ** self.exp)


def validate(n=4000):
    import random

    rnd = random.Random(7)
    for _ in range(n):
        e = rnd.randint(-30, 70)
        m = rnd.randint(-(2 ** 53) + 1, 2 ** 53 - 1)
        if rnd.random() < 0.3:
            m = rnd.choice([0, 1, 2, 3, 4, 6, 8, 1024, 2 ** 52])
        d = Dy(m, e - 52)
        f = float(m) * 2.0 ** (e - 52)
        for k in (0, 1):
            assert (d == k) == (f == k) and (d != k) == (f != k) and (d > k) == (f > k), (m, e)
        r = d % 2
        assert r.to_float() == f % 2, (m, e, r.to_float(), f % 2)
        assert (r != 0) == ((f % 2) != 0)
        assert (d / 2).to_float() == f / 2
    return n
