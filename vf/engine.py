"""Symbolic analysis of one claim with crosshair.core.analyze_calltree (DESIGN 1.2)."""
import collections
import sys
import time
from time import process_time

import z3

from crosshair.condition_parser import ConditionExpr, ConditionExprType, Conditions, condition_parser
from crosshair.core import analyze_calltree
from crosshair.options import DEFAULT_OPTIONS, AnalysisKind, AnalysisOptionSet
from crosshair.statespace import MessageType, VerificationStatus

from vf import claim as _claim
from vf import ext

_solver = {"s": 0.0, "n": 0, "unknown": 0}
_orig_check = z3.Solver.check


def _timed_check(self, *a, **kw):
    t = time.perf_counter()
    try:
        r = _orig_check(self, *a, **kw)
        if str(r) == "unknown":
            _solver["unknown"] += 1
        return r
    finally:
        _solver["s"] += time.perf_counter() - t
        _solver["n"] += 1


z3.Solver.check = _timed_check


def _jsonable(v):
    if isinstance(v, bool) or v is None or isinstance(v, (int, str)):
        return v
    if isinstance(v, float):
        return {"__float__": v.hex()}
    if isinstance(v, (bytes, bytearray)):
        return {"__bytes__": bytes(v).hex()}
    if isinstance(v, (list, tuple)):
        return [_jsonable(x) for x in v]
    if isinstance(v, dict):
        return {"__dict__": [[_jsonable(k), _jsonable(x)] for k, x in v.items()]}
    return {"__repr__": repr(v)}


def unjson(v):
    if isinstance(v, dict):
        if "__float__" in v:
            return float.fromhex(v["__float__"])
        if "__bytes__" in v:
            return bytes.fromhex(v["__bytes__"])
        if "__dict__" in v:
            return {unjson(k) if not isinstance(k, list) else tuple(unjson(k)): unjson(x) for k, x in v["__dict__"]}
        raise ValueError("cannot rebuild %r" % (v,))
    if isinstance(v, list):
        return [unjson(x) for x in v]
    return v


def analyze(c, twin=False, extra_pre=(), seed=0):
    """Run CrossHair over claim c.  Returns a dict (status, paths, confirmed, cex, ...)."""
    ext.install()
    ext.force_ieee_floats(not c.real_floats)
    ext.exact_int_div(getattr(c, 'exact_int_div', False))
    c.install_params()
    sig = c.sig()
    fn = c.fn
    captured = []

    def body(*a, **kw):
        ext.reset_state()
        return fn(*a, **kw)

    body.__name__ = fn.__name__
    body.__qualname__ = fn.__qualname__
    body.__module__ = fn.__module__

    filename = fn.__code__.co_filename
    line = fn.__code__.co_firstlineno

    def mk_pre(p, src):
        import inspect

        names = [n for n, prm in inspect.signature(p).parameters.items() if prm.default is inspect.Parameter.empty]

        def ev(bindings):
            return p(**{k: bindings[k] for k in names})

        return ConditionExpr(ConditionExprType.PRECONDITION, ev, filename, line, src)

    pres = [mk_pre(p, "pre%d" % i) for i, p in enumerate(list(c.pre) + list(extra_pre))]
    if twin:
        post = ConditionExpr(ConditionExprType.POSTCONDITION, lambda b: False, filename, line, "False")
    else:
        post = ConditionExpr(ConditionExprType.POSTCONDITION, lambda b: b["__return__"] is True or bool(b["__return__"]), filename, line, "_")

    def describe(args, return_val, repr_overrides):
        captured.append({k: _jsonable(v) for k, v in args.arguments.items()})
        return (fn.__name__ + repr(dict(args.arguments)), repr(return_val))

    conditions = Conditions(
        fn=body,
        src_fn=fn,
        pre=pres,
        post=[post],
        raises=frozenset(c.raises),
        sig=sig,
        mutable_args=None,
        fn_syntax_messages=[],
        counterexample_description_maker=describe,
    )
    stats = collections.Counter()
    timeout = max(30, 2 * c.per_path) if twin else c.timeout
    optset = AnalysisOptionSet(
        analysis_kind=[AnalysisKind.PEP316],
        per_condition_timeout=float(timeout),
        per_path_timeout=float(c.per_path),
        report_all=True,
        stats=stats,
        max_uninteresting_iterations=sys.maxsize,
    )
    options = DEFAULT_OPTIONS.overlay(optset)
    options.stats = stats
    s0, n0, u0 = _solver["s"], _solver["n"], _solver["unknown"]
    t0 = time.perf_counter()
    c0 = process_time()
    _claim._MODE["symbolic"] = True
    ext.start_recording()
    try:
        options.deadline = process_time() + options.per_condition_timeout
        with condition_parser(options.analysis_kind):
            analysis = analyze_calltree(options, conditions)
    finally:
        ext.stop_recording()
        _claim._MODE["symbolic"] = False
    st = analysis.verification_status
    msgs = [(m.state.name, m.message, m.traceback) for m in analysis.messages]
    status = {VerificationStatus.CONFIRMED: "CONFIRMED", VerificationStatus.UNKNOWN: "UNKNOWN", VerificationStatus.REFUTED: "REFUTED"}[st]
    if any(m[0] == "PRE_UNSAT" for m in msgs):
        status = "PRE_UNSAT"
    return {
        "status": status,
        "paths": int(stats.get("num_paths", 0)),
        "confirmed_paths": int(analysis.num_confirmed_paths),
        "messages": [[m[0], m[1][:2000], (m[2] or "")[-3000:]] for m in msgs],
        "cex": captured[-1] if captured and status == "REFUTED" else None,
        "solver_queries": _solver["n"] - n0,
        "solver_unknown": _solver["unknown"] - u0,
        "solver_s": round(_solver["s"] - s0, 3),
        "wall_s": round(time.perf_counter() - t0, 3),
        "cpu_s": round(process_time() - c0, 3),
    }
