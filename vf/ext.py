"""CrossHair engine plugins (DESIGN 1.3/1.4).  Engine-side only; nothing in /repo changes.

install() is called once per worker process before any analysis.
"""
import binascii
import math
import struct
import sys
import types

import z3

import crosshair.core as _core
from crosshair.core import realize
from crosshair.core_and_libs import NoTracing, ResumedTracing
from crosshair.libimpl import builtinslib as _bl
from crosshair.libimpl.builtinslib import SymbolicInt
from crosshair.statespace import context_statespace
from crosshair.tracers import COMPOSITE_TRACER, TracingModule
from crosshair.util import CrossHairValue

ASSUMPTIONS = []
_installed = [False]


# ---------------------------------------------------------------- int(user object)
class HexOf(object):
    """result of b2a_hex(possibly symbolic bytes); int(tok, 16) decodes it symbolically"""

    def __init__(self, b):
        self.b = b


def _install_int():
    prev = _core._PATCH_REGISTRATIONS[int]

    def _int_ext(val=0, *a, **kw):
        with NoTracing():
            ishex = isinstance(val, HexOf)
        if ishex:
            if len(a) == 1 and a[0] == 16 and not kw:
                if len(val.b) == 0:
                    raise ValueError("invalid literal for int() with base 16: b''")
                return int.from_bytes(val.b, "big")
            with NoTracing():
                rb = realize(val.b)
            return int(binascii.b2a_hex(rb), *a, **kw)
        if not a and not kw:
            with NoTracing():
                t = type(val)
                user = (
                    (not isinstance(val, CrossHairValue))
                    and isinstance(getattr(t, "__int__", None), types.FunctionType)
                    and (t.__module__ or "").startswith("mingus")
                )
            if user:
                r = t.__int__(val)
                with NoTracing():
                    if isinstance(r, (int, SymbolicInt)):
                        return r
                    raise TypeError("__int__ returned non-int (type %s)" % type(r).__name__)
        with NoTracing():
            return prev(val, *a, **kw)

    _core._PATCH_REGISTRATIONS[int] = _int_ext
    ASSUMPTIONS.append(
        "plugin: int(x) on instances of mingus classes dispatches to type(x).__int__(x) (CrossHair's int patch rejects symbolic __int__ results)"
    )


# ---------------------------------------------------------------- a | c, a & c with concrete c
def _install_bitops():
    orig_or = SymbolicInt.__or__
    orig_and = SymbolicInt.__and__

    def _or_const(a, c):
        with NoTracing():
            sp = context_statespace()
            if c == 0:
                return a
            if c > 0:
                low = c & -c
                if not sp.is_possible(z3.Not(z3.And(a.var >= 0, a.var < low))):
                    return SymbolicInt(a.var + c)
            if c > 0 and sp.smt_fork(a.var >= 0, probability_true=0.99):
                r = a.var
                i = 0
                while (1 << i) <= c:
                    if c & (1 << i):
                        r = r + (1 - (a.var / (1 << i)) % 2) * (1 << i)
                    i += 1
                return SymbolicInt(r)
        return orig_or(a, c)

    def _or(a, b):
        with NoTracing():  # under tracing type() reports int for symbolic ints too
            conc = type(b) is int
        if conc:
            return _or_const(a, b)
        return orig_or(a, b)

    def _and_const(a, c):
        with NoTracing():
            sp = context_statespace()
            if c >= 0 and (c & (c + 1)) != 0 and sp.smt_fork(a.var >= 0, probability_true=0.99):
                r = z3.IntVal(0)
                i = 0
                while (1 << i) <= c:
                    if c & (1 << i):
                        r = r + ((a.var / (1 << i)) % 2) * (1 << i)
                    i += 1
                return SymbolicInt(r)
        return orig_and(a, c)

    def _and(a, b):
        with NoTracing():
            conc = type(b) is int
        if conc:
            return _and_const(a, b)
        return orig_and(a, b)

    SymbolicInt.__or__ = _or
    SymbolicInt.__ror__ = _or
    SymbolicInt.__and__ = _and
    SymbolicInt.__rand__ = _and
    ASSUMPTIONS.append(
        "plugin: symbolic_int | const and symbolic_int & const encoded with integer div/mod per set bit (non-negative branch), validated concretely by vf.ext.selftest"
    )


# ---------------------------------------------------------------- float model
def force_ieee_floats(on=True):
    if on:
        _bl._PYTYPE_TO_WRAPPER_TYPE[float] = ((_bl.PreciseIeeeSymbolicFloat, 1.0),)
    else:
        _bl._PYTYPE_TO_WRAPPER_TYPE[float] = ((_bl.RealBasedSymbolicFloat, 1.0),)


# ---------------------------------------------------------------- C-boundary stubs
_orig_log = math.log
_orig_pack = struct.pack
_orig_b2a = binascii.b2a_hex


def _log_stub(x, base=math.e):
    """contract: for symbolic integer x >= 1 and concrete integer base >= 2 returns r
    with floor(r) == floor(log_base x); everything else realises and calls libm."""
    with NoTracing():
        symbolic = isinstance(x, SymbolicInt)
    if (not symbolic) or type(base) is not int or base < 2:
        with NoTracing():
            return _orig_log(realize(x), realize(base))
    if x < 1:
        with NoTracing():
            return _orig_log(realize(x), base)
    k = 0
    while x >= base ** (k + 1):
        k += 1
    return float(k) + 0.5


def _pack_stub(fmt, *vals):
    with NoTracing():
        f = realize(fmt)
    if f == "%sB" % len(vals):
        return bytes(list(vals))
    with NoTracing():
        return _orig_pack(f, *[realize(v) for v in vals])


def _b2a_stub(data, *a, **kw):
    with NoTracing():
        conc = isinstance(data, (bytes, bytearray))
    if a or kw or conc:
        with NoTracing():
            return _orig_b2a(realize(data), *a, **kw)
    return HexOf(data)


def _install_stubs():
    _core._PATCH_REGISTRATIONS[math.log] = _log_stub
    _core._PATCH_REGISTRATIONS[struct.pack] = _pack_stub
    _core._PATCH_REGISTRATIONS[binascii.b2a_hex] = _b2a_stub
    ASSUMPTIONS.append(
        "stub: math.log(symbolic int x>=1, concrete int base) -> value whose floor is floor(log_base x), found by integer comparisons; assumes libm log is monotone (boundary points base^k-1, base^k, base^k+1 checked concretely by selftest)"
    )
    ASSUMPTIONS.append("stub: struct.pack('<n>B', *bytes) == bytes(list(...)) (checked concretely by selftest)")
    ASSUMPTIONS.append(
        "stub: binascii.b2a_hex(symbolic bytes) returns a token; int(token, 16) == int.from_bytes(bytes, 'big'), ValueError on empty (checked concretely by selftest)"
    )


# ---------------------------------------------------------------- "fmt" % args without realising
import re as _re

_FMT_RE = _re.compile(r"%(?P<flags>[0]?)(?P<width>\d*)(?P<conv>[sdixr%])")


class HexTok(object):
    """result of "%0Kx" % symbolic_int; a2b_hex(tok) == value.to_bytes(K//2, 'big') when 0 <= value < 16**K"""

    def __init__(self, value, width):
        self.value = value
        self.width = width

    def __ch_realize__(self):
        return ("%0" + str(self.width) + "x") % realize(self.value)


def _is_sym(v):
    return isinstance(v, CrossHairValue)


def _sym_repr(a):
    """repr() of a symbolic str: "'" + a + "'" on the branch where every character is printable and neither a
    quote nor a backslash (exactly CPython's repr there); otherwise an arbitrary quoted string."""
    plain = True
    for ch in a:
        if ch == "'" or ch == chr(92) or not ch.isprintable():
            plain = False
            break
    if plain:
        return "'" + a + "'"
    # escapes needed: over-approximate the escaped text by an arbitrary string (sound; a spurious
    # counterexample that depends on it would not survive the concrete replay)
    with NoTracing():
        sp = context_statespace()
        fresh = _core.proxy_for_type(str, "reprtext" + sp.uniq())
    return "'" + fresh + "'"


def _install_percent():
    prev = _core._PATCH_REGISTRATIONS[str.__mod__]

    def _percent(self, other):
        with NoTracing():
            plain = type(self) is str
            args = list(other) if type(other) is tuple else [other]
            anysym = any(_is_sym(a) for a in args)
            plan = None
            if plain and anysym and not isinstance(other, dict):
                plan = []
                pos = 0
                n = 0
                ok = True
                for m in _FMT_RE.finditer(self):
                    if "%" in self[pos : m.start()]:
                        ok = False
                        break
                    plan.append(("lit", self[pos : m.start()]))
                    pos = m.end()
                    conv = m.group("conv")
                    if conv == "%":
                        if m.group("flags") or m.group("width"):
                            ok = False
                            break
                        plan.append(("lit", "%"))
                        continue
                    if n >= len(args):
                        ok = False
                        break
                    a = args[n]
                    n += 1
                    if conv in "di":
                        if m.group("flags") or m.group("width") or not (type(a) is int or isinstance(a, SymbolicInt)):
                            ok = False
                            break
                        plan.append(("str", a))
                    elif conv == "s":
                        if m.group("flags") or m.group("width"):
                            ok = False
                            break
                        plan.append(("str", a))
                    elif conv == "r":
                        if m.group("flags") or m.group("width") or not isinstance(a, _bl.AnySymbolicStr):
                            ok = False
                            break
                        plan.append(("repr", a))
                    elif conv == "x":
                        w = m.group("width")
                        if not (isinstance(a, SymbolicInt) and m.group("flags") == "0" and w and int(w) % 2 == 0):
                            ok = False
                            break
                        plan.append(("hex", a, int(w)))
                    else:
                        ok = False
                        break
                if ok and "%" not in self[pos:] and n != len(args) and not (len(args) == 1 and isinstance(args[0], dict)):
                    # CPython: surplus arguments -> TypeError, without looking at their values
                    raise TypeError("not all arguments converted during string formatting")
                if ok and ("%" in self[pos:] or n != len(args)):
                    ok = False
                if ok:
                    plan.append(("lit", self[pos:]))
                else:
                    plan = None
                if plan is not None and any(p[0] == "hex" for p in plan):
                    # only the bare idiom "%0Kx" % E is kept symbolic
                    real_parts = [p for p in plan if not (p[0] == "lit" and p[1] == "")]
                    if len(real_parts) != 1:
                        plan = None
        if plan is None:
            with NoTracing():
                if not isinstance(realize(self), str):
                    raise TypeError
                return realize(self) % _core.deep_realize(other)
        if len(plan) >= 1 and any(p[0] == "hex" for p in plan):
            p = [q for q in plan if q[0] == "hex"][0]
            return HexTok(p[1], p[2])
        out = ""
        for p in plan:
            if p[0] == "lit":
                out = out + p[1]
            elif p[0] == "repr":
                out = out + _sym_repr(p[1])
            else:
                out = out + str(p[1])
        return out

    _core._PATCH_REGISTRATIONS[str.__mod__] = _percent

    orig_a2b = binascii.a2b_hex

    def _a2b_stub(data, *a, **kw):
        with NoTracing():
            tok = isinstance(data, HexTok)
        if not tok or a or kw:
            with NoTracing():
                return orig_a2b(realize(data), *a, **kw)
        v, w = data.value, data.width
        if 0 <= v < 16 ** w:
            return v.to_bytes(w // 2, "big")
        with NoTracing():
            return orig_a2b(realize(data))

    _core._PATCH_REGISTRATIONS[binascii.a2b_hex] = _a2b_stub
    ASSUMPTIONS.append(
        "plugin: 'literal %s %d' % symbolic values is built by concatenation with str(value) instead of realising; a2b_hex('%0Kx' % n) == n.to_bytes(K/2,'big') for 0 <= n < 16^K (checked concretely by selftest)"
    )


# ---------------------------------------------------------------- symbolic str equality (CrossHair 0.0.110 defect)
def _install_streq():
    """(n + "#")[:-1] == n evaluates to False in stock CrossHair 0.0.110: the code point containers
    (list / tuple / SequenceConcatenation / SliceView) are compared with container-type-sensitive ==.
    Replace with a comparison of lengths and code points that ignores the container type."""
    L = _bl.LazyIntSymbolicStr
    T = _bl.SymbolicBoundedIntTuple

    def _eq(self, other):
        with NoTracing():
            if isinstance(other, L):
                op = other._codepoints
            elif isinstance(other, str):
                op = [ord(ch) for ch in other]
            else:
                return NotImplemented
            mp = self._codepoints
            if mp is op:
                return True
            left_sym = isinstance(mp, T)
            right_sym = isinstance(op, T)
        if left_sym:
            return mp.__eq__(op)
        if right_sym:
            return op.__eq__(mp)
        if len(mp) != len(op):
            return False
        for a, b in zip(mp, op):
            if a is b:
                continue
            if a != b:
                return False
        return True

    def _ne(self, other):
        r = _eq(self, other)
        if r is NotImplemented:
            return r
        return not r

    L.__eq__ = _eq
    L.__ne__ = _ne

    # SymbolicBoundedIntTuple[slice] raises CrossHairInternal when more code point variables were
    # created than the (now realised) length; the surplus variables are unconstrained and unused,
    # so truncating to the realised length is sound.
    from crosshair.util import CrossHairInternal

    orig_gi = T.__getitem__

    def _gi(self, argument):
        try:
            return orig_gi(self, argument)
        except CrossHairInternal as e:
            if "exceeded actual length" not in str(e):
                raise
            with NoTracing():
                n = realize(self._len)
                a = argument
                return self._created_vars[:n][realize(a.start) : realize(a.stop) : realize(a.step)]

    T.__getitem__ = _gi
    ASSUMPTIONS.append("plugin: symbolic str ==/!= compares lengths and code points irrespective of the backing container type (works around a CrossHair 0.0.110 defect where (s+'#')[:-1] == s is False)")


# ---------------------------------------------------------------- exact symbolic_int / 2^k
_EXACT_DIV = [False]


def exact_int_div(on):
    _EXACT_DIV[0] = bool(on)


def _install_exact_div():
    """int / 2^k when the path condition implies divisibility and |a| <= 2^53: the quotient is an exactly
    representable double, so every later comparison / modulo has the same truth value on the integer term.
    Only active for claims that opt in (exact_int_div)."""
    orig = SymbolicInt.__truediv__

    def _truediv(a, b):
        with NoTracing():
            conc = type(b) is int
        if _EXACT_DIV[0] and conc and b > 0 and (b & (b - 1)) == 0:
            with NoTracing():
                sp = context_statespace()
                lim = 2 ** 53
                if (not sp.is_possible(a.var % b != 0)) and (not sp.is_possible(z3.Or(a.var > lim, a.var < -lim))):
                    return SymbolicInt(a.var / b)
        return orig(a, b)

    SymbolicInt.__truediv__ = _truediv


# ---------------------------------------------------------------- no premature realisation
def _install_always_symbolic():
    """CrossHair's argument factories fork ("premature realize") into a branch that picks concrete values for
    an argument once earlier paths realised it; that branch enumerates an unbounded domain, repeats values
    and prevents exhaustion.  Arguments of the basic types are always created symbolic here."""

    def always(typ):
        def make(creator, *type_args):
            return typ(creator.varname, creator.pytype)

        return make

    for pytype, sym in (
        (bool, _bl.SymbolicBool),
        (int, _bl.SymbolicBoundedInt),
        (float, _bl.make_float),
        (str, _bl.LazyIntSymbolicStr),
    ):
        _core._SIMPLE_PROXIES[pytype] = always(sym)
    ASSUMPTIONS.append("plugin: bool/int/float/str arguments are always created symbolic (CrossHair's heuristic 'premature realize' branch is disabled)")


# ---------------------------------------------------------------- str(list) with symbolic element reprs
def _install_str_of_containers():
    """str(x) for an exact list/tuple/dict/set is repr(x) (CPython: these types do not define __str__);
    route it through CrossHair's repr machinery, which tolerates element __repr__s that return symbolic strings."""
    prev = _core._PATCH_REGISTRATIONS[str]

    def _str_ext(*a, **kw):
        if len(a) == 1 and not kw:
            with NoTracing():
                container = type(a[0]) in (list, tuple, dict, set, frozenset)
            if container:
                return repr(a[0])
        with NoTracing():
            return prev(*a, **kw)

    _core._PATCH_REGISTRATIONS[str] = _str_ext


# ---------------------------------------------------------------- open()/print() environment stubs
def _install_env():
    import builtins

    from vf import vio

    prev_open = _core._PATCH_REGISTRATIONS.get(open)
    real_open = builtins.open

    def _open(file, *a, **kw):
        with NoTracing():
            mem = isinstance(file, str) and file.startswith(vio.PREFIX)
        if mem:
            return vio.fake_open(real_open)(file, *a, **kw)
        if prev_open is not None:
            return prev_open(file, *a, **kw)
        return real_open(file, *a, **kw)

    _core._PATCH_REGISTRATIONS[open] = _open
    _core._PATCH_REGISTRATIONS[print] = lambda *a, **kw: None
    ASSUMPTIONS.append("environment: open() on /vf-mem/* paths is an in-memory file over (possibly symbolic) bytes; print() does nothing")


# ---------------------------------------------------------------- record which repo functions ran symbolically
ENCODED = set()


class _Recorder(TracingModule):
    def trace_call(self, frame, fn, binding_target):
        if type(fn) is types.FunctionType:
            mod = fn.__module__
            if mod is not None and mod.startswith("mingus"):
                ENCODED.add(mod + "." + fn.__qualname__)
        return None


_recorder = _Recorder()


def start_recording():
    COMPOSITE_TRACER.push_module(_recorder)


def stop_recording():
    try:
        COMPOSITE_TRACER.pop_config(_recorder)
    except Exception:
        pass


# ---------------------------------------------------------------- module state between paths
_RESETTERS = []


def _plain(x, depth=0):
    import types

    if x is None or type(x) in (bool, int, float, str, bytes):
        return True
    if isinstance(x, (types.FunctionType, types.BuiltinFunctionType, type, types.ModuleType)):
        return True
    if depth > 6:
        return False
    if type(x) in (list, tuple, set, frozenset):
        return all(_plain(y, depth + 1) for y in x)
    if type(x) is dict:
        return all(_plain(k, depth + 1) and _plain(v, depth + 1) for k, v in x.items())
    return False


def discover_state():
    """Find every piece of module-level and class-level state in the loaded mingus modules: memo tables (reset to
    empty = cold), the fft position memory, class-level mutable defaults, and - generically - every other
    module-level dict/list/set (snapshot, restored in place when it no longer equals the snapshot) and every module-level scalar
    or tuple (restored when rebound).  A memo table added by a change to the repo is therefore reset between paths
    like the known ones, and the warm/cold claims (vf.claim.warm_cold) can put it into its initial state."""
    import copy

    del _RESETTERS[:]
    found = []
    for name, mod in list(sys.modules.items()):
        if not name.startswith("mingus") or mod is None:
            continue
        for attr, val in list(vars(mod).items()):
            if attr.startswith("__"):
                continue
            if attr.startswith("_") and type(val) is dict and attr.endswith("cache"):
                _RESETTERS.append((mod, attr, "dict", None))
                found.append("%s.%s" % (name, attr))
            elif attr == "_last_asked":
                _RESETTERS.append((mod, attr, "value", None))
                found.append("%s.%s" % (name, attr))
            elif type(val) in (dict, list, set):
                # only plain data: a table holding objects without value equality (the registered tunings) cannot be
                # compared with its snapshot, and restoring it would replace the objects other modules hold
                if not _plain(val):
                    continue
                try:
                    snap = copy.deepcopy(val)
                except Exception:
                    continue
                _RESETTERS.append((mod, attr, "snap", (val, len(val), snap)))
            elif val is None or type(val) in (int, float, str, bool, tuple, bytes):
                _RESETTERS.append((mod, attr, "rebind", val))
            if isinstance(val, type) and val.__module__ == name:
                for ca, cv in list(vars(val).items()):
                    if type(cv) in (list, dict) and not ca.startswith("__"):
                        _RESETTERS.append((val, ca, "copy", copy.deepcopy(cv)))
                        found.append("%s.%s.%s" % (name, val.__name__, ca))
    _discovered[0] = True
    return found


_discovered = [False]


def ensure_state():
    if not _discovered[0]:
        discover_state()


def reset_state():
    """put every discovered piece of state back (harness bookkeeping: runs outside the symbolic tracer)"""
    from vf import claim as _c

    if _c._MODE["symbolic"]:
        from crosshair.core_and_libs import NoTracing

        with NoTracing():
            _reset_state()
    else:
        _reset_state()


def _differs(obj, snap):
    try:
        return bool(obj != snap)
    except BaseException:  # noqa - an entry that cannot be compared concretely is leaked state: restore
        return True


def _reset_state():
    import copy

    for owner, attr, kind, init in _RESETTERS:
        if kind == "dict":
            getattr(owner, attr).clear()
        elif kind == "value":
            setattr(owner, attr, None)
        elif kind == "rebind":
            if getattr(owner, attr, init) is not init:
                setattr(owner, attr, init)
        elif kind == "snap":
            obj, n, snap = init
            if getattr(owner, attr, obj) is not obj:
                setattr(owner, attr, obj)
            if len(obj) != n or _differs(obj, snap):
                fresh = copy.deepcopy(snap)
                if type(obj) is list:
                    obj[:] = fresh
                else:
                    obj.clear()
                    obj.update(fresh)
        else:
            cur = getattr(owner, attr)
            if len(cur) != len(init) or _differs(cur, init):
                if type(cur) is list:
                    cur[:] = copy.deepcopy(init)
                else:
                    cur.clear()
                    cur.update(copy.deepcopy(init))


# ---------------------------------------------------------------- regex '$' (CrossHair 0.0.110 defect)
def _dollar_item(pattern):
    """parsed form of (?=\\n?\\Z): what a non-MULTILINE '$' means in CPython"""
    from crosshair.libimpl import relib

    look = b"(?=\n?\\Z)" if isinstance(pattern, (bytes, bytearray)) else "(?=\n?\\Z)"
    return _orig_re_parse[0](look, 0).data[0]


def _rewrite_dollar(sub, pattern):
    from crosshair.libimpl import relib

    def walk(x):
        if hasattr(x, "data") and isinstance(x.data, list):
            for i, item in enumerate(x.data):
                if isinstance(item, tuple) and len(item) == 2 and item[0] is relib.AT and item[1] is relib.AT_END:
                    x.data[i] = _dollar_item(pattern)
                else:
                    walk(item)
        elif isinstance(x, (tuple, list)):
            for y in x:
                walk(y)

    walk(sub)
    return sub


_orig_re_parse = [None]


def _install_regex_dollar():
    """CrossHair's symbolic regex matcher treats a non-MULTILINE '$' as 'end of string' only; CPython also lets it
    match just before a single trailing newline (re.match('[A-G]$', 'C\\n') succeeds).  Found because a seeded change
    (a validity test rewritten with re and '$') was CONFIRMED although 'C\\n' breaks it.  The parse tree is rewritten:
    '$' -> lookahead (?=\\n?\\Z), which the matcher models exactly."""
    import re
    from crosshair.libimpl import relib

    if _orig_re_parse[0] is not None:
        return
    _orig_re_parse[0] = relib.parse

    def parse(pattern, flags=0, *a, **kw):
        p = _orig_re_parse[0](pattern, flags, *a, **kw)
        fl = flags | getattr(getattr(p, "state", None), "flags", 0)
        if not (fl & re.MULTILINE):
            _rewrite_dollar(p, pattern)
        return p

    relib.parse = parse


def install():
    if _installed[0]:
        return
    _installed[0] = True
    _install_regex_dollar()
    _install_int()
    _install_bitops()
    _install_stubs()
    _install_percent()
    _install_streq()
    _install_exact_div()
    _install_always_symbolic()
    _install_str_of_containers()
    _install_env()
    force_ieee_floats(True)
    ASSUMPTIONS.append("float model: z3 Float64, round-nearest-even (PreciseIeeeSymbolicFloat) unless the claim says real_floats")


# ---------------------------------------------------------------- concrete validation of the stubs
def selftest():
    """Differential check of every stub against the real C function on concrete data."""
    import random

    rnd = random.Random(12345)
    n = 0
    for _ in range(1000):
        k = rnd.randint(0, 6)
        bs = [rnd.randint(0, 255) for _ in range(k)]
        assert bytes(list(bs)) == _orig_pack("%sB" % k, *bs)
        n += 1
    for b in range(256):
        assert int(_orig_b2a(bytes([b])), 16) == int.from_bytes(bytes([b]), "big")
        n += 1
    for _ in range(5000):
        k = rnd.randint(2, 5)
        bs = bytes(rnd.randint(0, 255) for _ in range(k))
        assert int(_orig_b2a(bs), 16) == int.from_bytes(bs, "big")
        n += 1
    for base in (2, 128):
        k = 0
        while base ** k <= 2 ** 40:
            for x in (base ** k - 1, base ** k, base ** k + 1):
                if x >= 1:
                    fl = 0
                    while x >= base ** (fl + 1):
                        fl += 1
                    assert int(_orig_log(x, base)) == fl, (x, base)
                    n += 1
            k += 1
    for _ in range(2000):
        a = rnd.randint(0, 2 ** 28)
        c = rnd.choice([0x80, 0x7F, 0x90, 0xB0, 0xC0, 0xF0, 0x0F, 0x8000, 5, 1 << 7])
        r = a
        i = 0
        while (1 << i) <= c:
            if c & (1 << i):
                r = r + (1 - (a // (1 << i)) % 2) * (1 << i)
            i += 1
        assert r == a | c
        r = 0
        i = 0
        while (1 << i) <= c:
            if c & (1 << i):
                r = r + ((a // (1 << i)) % 2) * (1 << i)
            i += 1
        assert r == a & c
        n += 1
    for _ in range(3000):
        w = rnd.choice([2, 4, 6, 8])
        v = rnd.randint(0, 16 ** w - 1)
        assert binascii.a2b_hex(("%0" + str(w) + "x") % v) == v.to_bytes(w // 2, "big")
        n += 1
    # '$' rewrite: the rewritten parse tree, compiled by CPython itself, must match exactly like the original
    import itertools
    import re

    try:
        from re import _compiler as _sre_compile
    except ImportError:  # pragma: no cover
        import sre_compile as _sre_compile
    _install_regex_dollar()
    for pat in (r"[A-G][#b]*$", r"a$|b", r"(x$)?y", r"^a*$", r"a$\n", r"(?:a|b$)+"):
        tree = _rewrite_dollar(_orig_re_parse[0](pat, 0), pat)
        new = _sre_compile.compile(tree, 0)
        old = re.compile(pat)
        for k in range(0, 4):
            for tup in itertools.product("aAb#x y\n", repeat=k):
                t = "".join(tup)
                for fn in ("match", "search", "fullmatch"):
                    a_, b_ = getattr(old, fn)(t), getattr(new, fn)(t)
                    assert (a_ is None) == (b_ is None) and (a_ is None or a_.span() == b_.span()), (pat, t, fn)
                    n += 1
    return n
