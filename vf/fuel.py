"""Loop-fuel instrumentation (DESIGN 2.6): recompile a repo function from current source with a counter
at the head of every while body; exceeding the fuel raises FuelExhausted, which CrossHair reports as a
counterexample (a diverging path would otherwise only be a per-path timeout = UNKNOWN)."""
import ast
import inspect
import textwrap


class FuelExhausted(Exception):
    pass


_counter = {"n": 0}


def _tick(limit):
    _counter["n"] += 1
    if _counter["n"] > limit:
        raise FuelExhausted("loop ran more than %d iterations" % limit)


class _T(ast.NodeTransformer):
    def __init__(self, limit):
        self.limit = limit
        self.loops = 0

    def visit_While(self, node):
        self.generic_visit(node)
        self.loops += 1
        call = ast.Expr(ast.Call(ast.Name("_vf_tick", ast.Load()), [ast.Constant(self.limit)], []))
        node.body.insert(0, call)
        return node


def with_fuel(fn, limit):
    """returns (instrumented function, number of while loops instrumented)"""
    src = textwrap.dedent(inspect.getsource(fn))
    tree = ast.parse(src)
    t = _T(limit)
    tree = ast.fix_missing_locations(t.visit(tree))
    code = compile(tree, inspect.getsourcefile(fn) or "<fuel>", "exec")
    # the instrumented copy must share the module's real globals (module state such as position memories);
    # only the counter hook is added to that namespace (in memory, never written to /repo)
    fn.__globals__["_vf_tick"] = _tick
    tmp = {}
    exec(code, fn.__globals__, tmp)
    new = tmp[fn.__name__]

    def run(*a, **kw):
        _counter["n"] = 0
        return new(*a, **kw)

    run.__name__ = fn.__name__
    return run, t.loops
