"""Reference chord formulas: shorthand -> list of (letter steps above the root, semitones above the root).

Written from general harmony and the property text (m7 = root, minor third, perfect fifth, minor seventh;
7#11 adds an augmented fourth; dim7 uses a diminished seventh ...).  Where a shorthand has no single
textbook reading the library's documented meaning is transcribed (noted inline)."""
from vf.ref import theory as T

R = (0, 0)
M2 = (1, 2)
m3 = (2, 3)
M3 = (2, 4)
P4 = (3, 5)
A4 = (3, 6)
d5 = (4, 6)
P5 = (4, 7)
A5 = (4, 8)
M6 = (5, 9)
d7 = (6, 9)
m7 = (6, 10)
M7 = (6, 11)
b9 = (1, 1)
n9 = (1, 2)
s9 = (1, 3)
n11 = (3, 5)
s11 = (3, 6)
n13 = (5, 9)

FORMULAS = {
    "m": [R, m3, P5],
    "M": [R, M3, P5],
    "": [R, M3, P5],
    "dim": [R, m3, d5],
    "aug": [R, M3, A5],
    "+": [R, M3, A5],
    "7#5": [R, M3, A5, m7],
    "M7+5": [R, M3, A5, m7],  # documented by the library as 'augmented minor seventh'
    "m7+": [R, M3, A5, m7],
    "M7+": [R, M3, A5, M7],
    "7+": [R, M3, A5, M7],  # documented by the library as 'augmented major seventh'
    "sus47": [R, P4, P5, m7],
    "7sus4": [R, P4, P5, m7],
    "sus4": [R, P4, P5],
    "sus": [R, P4, P5],
    "sus2": [R, M2, P5],
    "11": [R, P5, m7, n11],  # the library's eleventh: root, fifth, minor seventh, eleventh
    "add11": [R, P5, m7, n11],
    "sus4b9": [R, P4, P5, b9],
    "susb9": [R, P4, P5, b9],
    "m7": [R, m3, P5, m7],
    "M7": [R, M3, P5, M7],
    "7": [R, M3, P5, m7],
    "dom7": [R, M3, P5, m7],
    "m7b5": [R, m3, d5, m7],
    "dim7": [R, m3, d5, d7],
    "m/M7": [R, m3, P5, M7],
    "mM7": [R, m3, P5, M7],
    "m6": [R, m3, P5, M6],
    "M6": [R, M3, P5, M6],
    "6": [R, M3, P5, M6],
    "6/7": [R, M3, P5, M6, m7],
    "67": [R, M3, P5, M6, m7],
    "6/9": [R, M3, P5, M6, n9],
    "69": [R, M3, P5, M6, n9],
    "9": [R, M3, P5, m7, n9],
    "add9": [R, M3, P5, m7, n9],  # the library documents add9 as a synonym of the dominant ninth
    "7b9": [R, M3, P5, m7, b9],
    "7#9": [R, M3, P5, m7, s9],
    "M9": [R, M3, P5, M7, n9],
    "m9": [R, m3, P5, m7, n9],
    "7#11": [R, M3, P5, m7, s11],
    "m11": [R, m3, P5, m7, n11],
    "M11": [R, M3, P5, M7, n9, n11],
    "M13": [R, M3, P5, M7, n9, n13],
    "m13": [R, m3, P5, m7, n9, n13],
    "13": [R, M3, P5, m7, n9, n13],
    "add13": [R, M3, P5, m7, n9, n13],
    "7b5": [R, M3, d5, m7],
    "hendrix": [R, M3, P5, m7, m3],  # dominant seventh plus the minor tenth
    "7b12": [R, M3, P5, m7, m3],
    "5": [R, P5],
}

MEANINGS = {
    "m": "minor triad", "M": "major triad", "": "major triad", "dim": "diminished triad", "aug": "augmented triad", "+": "augmented triad",
    "7#5": "augmented minor seventh", "M7+5": "augmented minor seventh", "m7+": "augmented minor seventh", "M7+": "augmented major seventh",
    "7+": "augmented major seventh", "sus47": "suspended seventh", "7sus4": "suspended seventh", "sus4": "suspended fourth triad",
    "sus": "suspended fourth triad", "sus2": "suspended second triad", "11": "eleventh", "add11": "eleventh", "sus4b9": "suspended fourth ninth",
    "susb9": "suspended fourth ninth", "m7": "minor seventh", "M7": "major seventh", "7": "dominant seventh", "dom7": "dominant seventh",
    "m7b5": "half diminished seventh", "dim7": "diminished seventh", "m/M7": "minor/major seventh", "mM7": "minor/major seventh",
    "m6": "minor sixth", "M6": "major sixth", "6": "major sixth", "6/7": "dominant sixth", "67": "dominant sixth", "6/9": "sixth ninth",
    "69": "sixth ninth", "9": "dominant ninth", "add9": "dominant ninth", "7b9": "dominant flat ninth", "7#9": "dominant sharp ninth",
    "M9": "major ninth", "m9": "minor ninth", "7#11": "lydian dominant seventh", "m11": "minor eleventh", "M11": "major eleventh", "M13": "major thirteenth",
    "m13": "minor thirteenth", "13": "dominant thirteenth", "add13": "dominant thirteenth", "7b5": "dominant flat five",
    "hendrix": "hendrix chord", "7b12": "hendrix chord", "5": "perfect fifth",
}


def spell(root, steps, semis):
    """(letter, pitch class) the chord note must have"""
    return T.letter_up(root[0], steps), (T.pc(root) + semis) % 12


def matches(notes, root, formula):
    if len(notes) != len(formula) or notes[0] != root:
        return False
    for n, (st, se) in zip(notes, formula):
        if not T.is_name(n):
            return False
        l, p = spell(root, st, se)
        if n[0] != l or T.pc(n) != p:
            return False
    return True


def build(root, sh):
    """canonical spelling of the chord (unmixed accidentals, |net| <= 6)"""
    out = []
    for st, se in FORMULAS[sh]:
        l, p = spell(root, st, se)
        d = (p - T.NAT[l]) % 12
        if d > 6:
            d -= 12
        out.append(T.canonical(l, d))
    out[0] = root
    return out
