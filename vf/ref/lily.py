"""Independent reader of the LilyPond subset mingus emits (written from the LilyPond notation manual).

parse_music(text) -> list of items:
  ("key", tonic_name, mode) | ("time", n, d) | ("entry", [ (name, octave), ... ] (empty = rest), base, dots, (num, den))
where (num, den) is the \\times fraction in force (1, 1 outside), base is a number (0.25 longa, 0.5 breve).
Absolute octave mode: c = octave 3, c' = 4, c, = 2.   parse_header(text) -> dict."""
from fractions import Fraction


class LilyError(Exception):
    pass


def _tokens(s):
    out = []
    i = 0
    n = len(s)
    while i < n:
        c = s[i]
        if c.isspace():
            i += 1
        elif c in "{}<>":
            out.append(c)
            i += 1
        elif c == '"':
            j = s.index('"', i + 1)
            out.append(("str", s[i + 1 : j]))
            i = j + 1
        else:
            j = i
            while j < n and not s[j].isspace() and s[j] not in "{}<>\"":
                j += 1
            out.append(s[i:j])
            i = j
    return out


def _pitch(tok):
    """'cis''' -> ('C#', 5), rest of token (duration text)"""
    if not tok or tok[0] not in "abcdefg":
        raise LilyError("not a pitch: %r" % tok)
    name = tok[0].upper()
    i = 1
    while tok[i : i + 2] in ("is", "es"):
        name += "#" if tok[i : i + 2] == "is" else "b"
        i += 2
    octave = 3
    while i < len(tok) and tok[i] in "',":
        octave += 1 if tok[i] == "'" else -1
        i += 1
    return (name, octave), tok[i:]


def _duration(text):
    if text == "":
        return None, 0
    dots = 0
    while text.endswith("."):
        dots += 1
        text = text[:-1]
    if text == "\\longa":
        return 0.25, dots
    if text == "\\breve":
        return 0.5, dots
    if not text.isdigit():
        raise LilyError("bad duration %r" % text)
    return int(text), dots


def parse_music(s):
    toks = _tokens(s)
    items = []
    stack = []  # per open brace: the \times fraction it closes, or None
    frac = [(1, 1)]
    i = 0
    while i < len(toks):
        t = toks[i]
        if t == "{":
            stack.append(None)
            i += 1
        elif t == "}":
            if not stack:
                raise LilyError("unbalanced }")
            if stack.pop() is not None:
                frac.pop()
            i += 1
        elif t == "\\key":
            (name, _o), rest = _pitch(toks[i + 1])
            if rest:
                raise LilyError("bad key")
            mode = toks[i + 2]
            if mode not in ("\\major", "\\minor"):
                raise LilyError("bad mode")
            items.append(("key", name, mode[1:]))
            i += 3
        elif t == "\\time":
            a, b = toks[i + 1].split("/")
            items.append(("time", int(a), int(b)))
            i += 2
        elif t == "\\times":
            a, b = toks[i + 1].split("/")
            if toks[i + 2] != "{":
                raise LilyError("\\times without block")
            stack.append("times")
            frac.append((int(a), int(b)))
            i += 3
        elif t == "<":
            notes = []
            i += 1
            while toks[i] != ">":
                p, rest = _pitch(toks[i])
                if rest:
                    raise LilyError("duration inside chord")
                notes.append(p)
                i += 1
            i += 1
            base, dots = (None, 0)
            if i < len(toks) and isinstance(toks[i], str) and toks[i] not in "{}<>" and (toks[i][0].isdigit() or toks[i].startswith("\\longa") or toks[i].startswith("\\breve")):
                base, dots = _duration(toks[i])
                i += 1
            items.append(("entry", notes, base, dots, frac[-1]))
        elif isinstance(t, str) and t[0] == "r" and (len(t) == 1 or t[1].isdigit() or t[1] == "\\"):
            base, dots = _duration(t[1:])
            items.append(("entry", [], base, dots, frac[-1]))
            i += 1
        elif isinstance(t, str) and t[0] in "abcdefg":
            p, rest = _pitch(t)
            base, dots = _duration(rest)
            items.append(("entry", [p], base, dots, frac[-1]))
            i += 1
        else:
            raise LilyError("unexpected token %r" % (t,))
    if stack:
        raise LilyError("unbalanced {")
    return items


def parse_header(s):
    toks = _tokens(s)
    if toks[:2] != ["\\header", "{"]:
        raise LilyError("no header")
    out = {}
    i = 2
    while toks[i] != "}":
        if toks[i + 1] != "=" or not isinstance(toks[i + 2], tuple):
            raise LilyError("bad header field")
        out[toks[i]] = toks[i + 2][1]
        i += 3
    return out, i + 1


def split_header(s):
    """returns (header dict, remaining music text)"""
    hdr, ntok = parse_header(s)
    # the header block ends at the first '}' after the last quoted string
    end = s.index("}", s.rindex('"', 0, s.index("} {") + 1) if "} {" in s else s.rindex('"')) + 1
    return hdr, s[end:]


def entry_length(base, dots, frac):
    return Fraction(1) / Fraction(base) * (2 - Fraction(1, 2 ** dots)) * Fraction(frac[0], frac[1])


def _selftest():
    it = parse_music("{ \\time 3/4 \\key ees \\minor c'4 <d fis, a''>8. r2 \\times 2/3 {g16 r16 } \\times 4/5 {b\\breve } }")
    assert it[0] == ("time", 3, 4) and it[1] == ("key", "Eb", "minor")
    assert it[2] == ("entry", [("C", 4)], 4, 0, (1, 1))
    assert it[3] == ("entry", [("D", 3), ("F#", 2), ("A", 5)], 8, 1, (1, 1))
    assert it[4] == ("entry", [], 2, 0, (1, 1))
    assert it[5] == ("entry", [("G", 3)], 16, 0, (2, 3)) and it[6] == ("entry", [], 16, 0, (2, 3))
    assert it[7] == ("entry", [("B", 3)], 0.5, 0, (4, 5))
    return True


_selftest()
