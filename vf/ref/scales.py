"""Reference scale patterns, from the property text and general theory (not from the repo)."""
from vf.ref import theory as T

MAJ = [2, 2, 1, 2, 2, 2, 1]
MIN = [2, 1, 2, 2, 1, 2, 2]
PATTERNS = {
    "Ionian": [2, 2, 1, 2, 2, 2, 1],
    "Dorian": [2, 1, 2, 2, 2, 1, 2],
    "Phrygian": [1, 2, 2, 2, 1, 2, 2],
    "Lydian": [2, 2, 2, 1, 2, 2, 1],
    "Mixolydian": [2, 2, 1, 2, 2, 1, 2],
    "Aeolian": [2, 1, 2, 2, 1, 2, 2],
    "Locrian": [1, 2, 2, 1, 2, 2, 2],
    "Major": MAJ,
    "HarmonicMajor": [2, 2, 1, 2, 1, 3, 1],
    "NaturalMinor": MIN,
    "HarmonicMinor": [2, 1, 2, 2, 1, 3, 1],
    "MelodicMinor": [2, 1, 2, 2, 2, 2, 1],
    "Bachian": [2, 1, 2, 2, 2, 2, 1],
    "MinorNeapolitan": [1, 2, 2, 2, 1, 3, 1],
    "Chromatic": [1] * 12,
    "WholeTone": [2] * 6,
    "Octatonic": [2, 1] * 4,
}
# descending step pattern read downward from the top tonic, where it is not the reverse of the ascending one
DESC_PATTERNS = {
    "MelodicMinor": list(reversed(MIN)),
    "MinorNeapolitan": list(reversed([1, 2, 2, 2, 1, 2, 2])),  # natural minor with the second lowered: 1-2-2-2-1-2-2 ascending
}
HEPTATONIC = [k for k, v in PATTERNS.items() if len(v) == 7]
ANY_TONIC = ["Ionian", "Dorian", "Phrygian", "Lydian", "Mixolydian", "Aeolian", "Locrian", "WholeTone", "Octatonic"]
MAJOR_FAMILY = ["Major", "HarmonicMajor"]
MINOR_FAMILY = ["NaturalMinor", "HarmonicMinor", "MelodicMinor", "Bachian", "MinorNeapolitan"]
DISPLAY = {
    "Major": "major",
    "HarmonicMajor": "harmonic major",
    "NaturalMinor": "natural minor",
    "HarmonicMinor": "harmonic minor",
    "MelodicMinor": "melodic minor",
    "Bachian": "Bachian",
    "MinorNeapolitan": "minor Neapolitan",
}


def heptatonic(tonic, pattern):
    """seven names on consecutive letters realising the step pattern from tonic"""
    out = [tonic]
    p = T.pc(tonic)
    letter = tonic[0]
    for st in pattern[:-1]:
        p = (p + st) % 12
        letter = T.letter_up(letter, 1)
        d = (p - T.NAT[letter]) % 12
        if d > 6:
            d -= 12
        out.append(T.canonical(letter, d))
    return out


def asc_set(cls, tonic):
    return set(heptatonic(tonic, PATTERNS[cls]))


def desc_set(cls, tonic):
    if cls == "MelodicMinor":
        return set(heptatonic(tonic, MIN))
    if cls == "MinorNeapolitan":
        return set(heptatonic(tonic, [1, 2, 2, 2, 1, 2, 2]))
    return asc_set(cls, tonic)


def recognise(notes):
    """names of all major/minor family scales over the 15 key pairs containing every given note"""
    notes = set(notes)
    res = []
    for i in range(15):
        mt = T.MAJOR_KEYS[i]
        nt = T.key_tonic(T.MINOR_KEYS[i])
        for cls in MAJOR_FAMILY:
            if notes <= asc_set(cls, mt) or notes <= desc_set(cls, mt):
                res.append("%s %s" % (mt, DISPLAY[cls]))
        for cls in MINOR_FAMILY:
            if notes <= asc_set(cls, nt) or notes <= desc_set(cls, nt):
                res.append("%s %s" % (nt, DISPLAY[cls]))
    return sorted(res)
