"""Independent Standard MIDI File reader (written from the SMF 1.0 specification, not from the repo).

parse(data) -> (format, ntracks, division, [track, ...]); a track is a list of events
  (abs_tick, delta, kind, ...):
     ("on"|"off"|"poly"|"cc"|"bend", channel, a, b) / ("prog"|"chanpress", channel, a) / ("meta", type, data)
Every structural rule the property names is enforced; anything else raises SMFError.  Works on CrossHair's
symbolic bytes as well as on real bytes (only indexing, slicing, len and int comparisons are used)."""


class SMFError(Exception):
    pass


def _u(data, i, n):
    if i + n > len(data):
        raise SMFError("truncated")
    v = 0
    for k in range(n):
        v = v * 256 + data[i + k]
    return v


def read_vlq(data, i, limit):
    """standard variable-length quantity: at most 4 bytes, big-endian 7-bit groups, continuation bit 0x80"""
    v = 0
    for k in range(4):
        if i >= limit:
            raise SMFError("truncated VLQ")
        b = data[i]
        i += 1
        if b >= 128:
            v = v * 128 + (b - 128)
        else:
            return v * 128 + b, i
    raise SMFError("VLQ longer than 4 bytes")


def parse_track(data, i, end):
    t = 0
    ev = []
    running = None
    ended = False
    while i < end:
        if ended:
            raise SMFError("data after end of track")
        dt, i = read_vlq(data, i, end)
        t += dt
        if i >= end:
            raise SMFError("truncated event")
        st = data[i]
        if st == 0xFF:
            i += 1
            if i >= end:
                raise SMFError("truncated meta")
            ty = data[i]
            i += 1
            ln, i = read_vlq(data, i, end)
            if i + ln > end:
                raise SMFError("meta data overruns chunk")
            body = data[i : i + ln]
            i += ln
            ev.append((t, dt, "meta", ty, body))
            if ty == 0x2F:
                if ln != 0:
                    raise SMFError("end of track with data")
                ended = True
            continue
        if st == 0xF0 or st == 0xF7:
            i += 1
            ln, i = read_vlq(data, i, end)
            if i + ln > end:
                raise SMFError("sysex overruns chunk")
            i += ln
            continue
        if st >= 0x80:
            i += 1
            running = st
        else:
            if running is None:
                raise SMFError("data byte without status")
            st = running
        if st >= 0xF0:
            raise SMFError("bad status byte")
        # classify by range comparisons (cheap for a solver; no division, no table lookup on the byte)
        if st < 0x90:
            kind, base, two = "off", 0x80, True
        elif st < 0xA0:
            kind, base, two = "on", 0x90, True
        elif st < 0xB0:
            kind, base, two = "poly", 0xA0, True
        elif st < 0xC0:
            kind, base, two = "cc", 0xB0, True
        elif st < 0xD0:
            kind, base, two = "prog", 0xC0, False
        elif st < 0xE0:
            kind, base, two = "chanpress", 0xD0, False
        else:
            kind, base, two = "bend", 0xE0, True
        ch = st - base
        if not two:
            if i >= end:
                raise SMFError("truncated")
            a = data[i]
            i += 1
            if a >= 128:
                raise SMFError("data byte >= 128")
            ev.append((t, dt, kind, ch, a))
        else:
            if i + 1 >= end:
                raise SMFError("truncated")
            a = data[i]
            b = data[i + 1]
            i += 2
            if a >= 128 or b >= 128:
                raise SMFError("data byte >= 128")
            ev.append((t, dt, kind, ch, a, b))
    if not ended:
        raise SMFError("no end of track")
    return ev


def parse(data):
    if len(data) < 14 or data[0:4] != b"MThd":
        raise SMFError("no MThd")
    if _u(data, 4, 4) != 6:
        raise SMFError("header length != 6")
    fmt = _u(data, 8, 2)
    ntr = _u(data, 10, 2)
    div = _u(data, 12, 2)
    i = 14
    tracks = []
    while i < len(data):
        if data[i : i + 4] != b"MTrk":
            raise SMFError("bad chunk tag")
        ln = _u(data, i + 4, 4)
        i += 8
        if i + ln > len(data):
            raise SMFError("chunk overruns file")
        tracks.append(parse_track(data, i, i + ln))
        i += ln
    if len(tracks) != ntr:
        raise SMFError("header declares %d tracks, %d chunks follow" % (ntr, len(tracks)))
    return fmt, ntr, div, tracks


def vlq(n):
    """standard encoder (reference)"""
    out = [n % 128]
    n //= 128
    while n:
        out.insert(0, 128 + n % 128)
        n //= 128
    return bytes(out)


def _selftest():
    assert vlq(0) == b"\x00" and vlq(0x40) == b"\x40" and vlq(0x7F) == b"\x7f" and vlq(0x80) == b"\x81\x00"
    assert vlq(0x2000) == b"\xc0\x00" and vlq(0x3FFF) == b"\xff\x7f" and vlq(0x4000) == b"\x81\x80\x00"
    assert vlq(0x1FFFFF) == b"\xff\xff\x7f" and vlq(0x200000) == b"\x81\x80\x80\x00" and vlq(0x0FFFFFFF) == b"\xff\xff\xff\x7f"
    for n in (0, 1, 127, 128, 255, 16383, 16384, 2097151, 2097152, 268435455):
        assert read_vlq(vlq(n), 0, 4)[0] == n
    trk = b"\x00\xff\x51\x03\x07\xa1\x20" + b"\x00\x90\x3c\x40" + b"\x48\x80\x3c\x40" + b"\x00\xff\x2f\x00"
    data = b"MThd\x00\x00\x00\x06\x00\x01\x00\x01\x00\x48" + b"MTrk" + len(trk).to_bytes(4, "big") + trk
    f, n, d, tr = parse(data)
    assert (f, n, d) == (1, 1, 72) and tr[0][1][:3] == (0, 0, "on") and tr[0][2] == (72, 72, "off", 0, 60, 64)
    return True


_selftest()
