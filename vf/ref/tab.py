"""Independent reader of ASCII tablature (six-line staff, one text line per string, highest string first).

read(text, nstrings) -> (lines, columns): `columns` is the list, left to right, of dicts {string index: fret}
where string index counts from the lowest string (0) as in the tuning, grouping fret numbers that end in the
same text column."""


class TabError(Exception):
    pass


def staff_lines(text, nstrings):
    rows = [r for r in text.replace("\r\n", "\n").split("\n")]
    staff = [r for r in rows if "||" in r and r.strip() not in ("||",) and "-" in r]
    return staff


def read_block(staff, nstrings):
    """staff: nstrings text lines (highest string first)"""
    if len(staff) != nstrings:
        raise TabError("expected %d string lines, found %d" % (nstrings, len(staff)))
    width = len(staff[0])
    for r in staff:
        if len(r) != width:
            raise TabError("string lines differ in length: %r" % ([len(x) for x in staff],))
    start = staff[0].index("||") + 2
    for r in staff:
        if r.index("||") + 2 != start:
            raise TabError("staff does not start in the same column")
    cols = {}
    for li, r in enumerate(staff):
        string = nstrings - 1 - li
        i = start
        while i < len(r):
            ch = r[i]
            if ch.isdigit():
                j = i
                while j < len(r) and r[j].isdigit():
                    j += 1
                cols.setdefault(j, {})[string] = int(r[i:j])
                i = j
            elif ch in "-|":
                i += 1
            elif ch == " " and i + 1 < len(r) and (r[i + 1].isdigit() or r[i + 1] == " "):
                # mingus right-aligns the fret numbers of one entry with "%Ns": a one-digit fret next to a
                # two-digit one is written " 0".  The number is still read off the line, so padding is accepted
                # (only directly in front of a number)
                i += 1
            else:
                raise TabError("unexpected character %r in staff" % ch)
    return [cols[k] for k in sorted(cols)]
