"""Reference music theory, written from the property text (not from the repo)."""

LETTERS = "CDEFGAB"
NAT = {"C": 0, "D": 2, "E": 4, "F": 5, "G": 7, "A": 9, "B": 11}


def spelled(s, kmax, kmin=0):
    """s is a letter A-G followed by kmin..kmax accidentals from '#b' (claim precondition)."""
    if not (1 + kmin <= len(s) <= 1 + kmax):
        return False
    if s[0] not in LETTERS:
        return False
    for ch in s[1:]:
        if ch != "#" and ch != "b":
            return False
    return True


def is_name(s):
    return len(s) >= 1 and spelled(s, len(s))


def net(s):
    """sharps minus flats"""
    n = 0
    for ch in s[1:]:
        if ch == "#":
            n += 1
        else:
            n -= 1
    return n


def pc(s):
    return (NAT[s[0]] + net(s)) % 12


def canonical(letter, n):
    return letter + ("#" * n if n >= 0 else "b" * (-n))


def unmixed(s):
    acc = s[1:]
    return ("#" not in acc) or ("b" not in acc)


def letter_up(letter, steps):
    return LETTERS[(LETTERS.index(letter) + steps) % 7]


def letter_dist(a, b):
    """number of letter steps from letter a up to letter b (0..6)"""
    return (LETTERS.index(b) - LETTERS.index(a)) % 7


MAJOR_SIZE = [0, 2, 4, 5, 7, 9, 11]  # semitones of the major/perfect interval on degree 1..7

# name -> (letter steps, semitones) for the 17 named constructors of the property
INTERVALS = {
    "minor_unison": (0, -1),
    "major_unison": (0, 0),
    "augmented_unison": (0, 1),
    "minor_second": (1, 1),
    "major_second": (1, 2),
    "minor_third": (2, 3),
    "major_third": (2, 4),
    "minor_fourth": (3, 4),
    "major_fourth": (3, 5),
    "perfect_fourth": (3, 5),
    "minor_fifth": (4, 6),
    "major_fifth": (4, 7),
    "perfect_fifth": (4, 7),
    "minor_sixth": (5, 8),
    "major_sixth": (5, 9),
    "minor_seventh": (6, 10),
    "major_seventh": (6, 11),
}

MAJOR_STEPS = [2, 2, 1, 2, 2, 2, 1]
MINOR_STEPS = [2, 1, 2, 2, 1, 2, 2]
FIFTHS_SHARPS = ["F", "C", "G", "D", "A", "E", "B"]


def key_notes(tonic, minor):
    """the seven names of a major / natural minor key on tonic (a spelled name)"""
    steps = MINOR_STEPS if minor else MAJOR_STEPS
    out = [tonic]
    cur_pc = pc(tonic)
    letter = tonic[0]
    for st in steps[:-1]:
        cur_pc = (cur_pc + st) % 12
        letter = letter_up(letter, 1)
        d = (cur_pc - NAT[letter]) % 12
        if d > 6:
            d -= 12
        out.append(canonical(letter, d))
    return out


def key_signature(tonic, minor):
    n = 0
    for x in key_notes(tonic, minor):
        n += net(x)
    return n


MAJOR_KEYS = ["Cb", "Gb", "Db", "Ab", "Eb", "Bb", "F", "C", "G", "D", "A", "E", "B", "F#", "C#"]
MINOR_KEYS = ["ab", "eb", "bb", "f", "c", "g", "d", "a", "e", "b", "f#", "c#", "g#", "d#", "a#"]


def all_keys():
    return MAJOR_KEYS + MINOR_KEYS


def key_tonic(k):
    return k[0].upper() + k[1:]


def key_is_minor(k):
    return k[0].islower()


def midi_pitch(name, octave):
    return 12 * octave + NAT[name[0]] + net(name)
