"""File I/O for harnesses: in symbolic mode `open` is replaced (engine-side patch, by identity) with an
in-memory file over possibly symbolic bytes for paths under /vf-mem/; in replay mode real files in a private
temporary directory are used."""
import os
import tempfile

from vf import claim as _claim

MEM = {}
_tmp = {"dir": None}
PREFIX = "/vf-mem/"


class MemWriter(object):
    def __init__(self, path):
        self.path = path
        self.parts = b""

    def write(self, data):
        self.parts = self.parts + data
        return len(data)

    def close(self):
        MEM[self.path] = self.parts

    def __enter__(self):
        return self

    def __exit__(self, *a):
        self.close()


class MemReader(object):
    def __init__(self, data):
        self.data = data
        self.pos = 0

    def read(self, n=-1):
        if n is None or n < 0:
            r = self.data[self.pos :]
            self.pos = len(self.data)
            return r
        r = self.data[self.pos : self.pos + n]
        self.pos = self.pos + len(r)
        return r

    def close(self):
        pass

    def __enter__(self):
        return self

    def __exit__(self, *a):
        pass


def fake_open(orig):
    def _open(file, mode="r", *a, **kw):
        if isinstance(file, str) and file.startswith(PREFIX):
            if "w" in mode:
                return MemWriter(file)
            if file not in MEM:
                raise IOError("no such in-memory file")
            return MemReader(MEM[file])
        return orig(file, mode, *a, **kw)

    return _open


def new_path(name="f.mid"):
    if _claim.symbolic_mode():
        return PREFIX + name
    if _tmp["dir"] is None:
        _tmp["dir"] = tempfile.mkdtemp(prefix="vf-replay-")
    return os.path.join(_tmp["dir"], name)


def put(path, data):
    if _claim.symbolic_mode():
        MEM[path] = data
    else:
        with open(path, "wb") as f:
            f.write(bytes(data))


def get(path):
    if _claim.symbolic_mode():
        return MEM[path]
    with open(path, "rb") as f:
        return f.read()


def reset():
    MEM.clear()
