"""One claim shard per process.

  python -m vf.worker analyze <Cnn> <tier> <claim-name> <out.json> [known-json]
  python -m vf.worker replay  <Cnn> <tier> <claim-name> <args.json>      (plain interpreter, no CrossHair)
  python -m vf.worker list    <Cnn> <tier>
"""
import importlib
import json
import os
import sys
import traceback

import vf

vf.use_repo()


def load_claims(prop, tier):
    mod = importlib.import_module("vf.claims." + prop.lower())
    claims = mod.claims(tier)
    names = [c.name for c in claims]
    assert len(set(names)) == len(names), "duplicate claim names: %r" % sorted(n for n in names if names.count(n) > 1)
    return mod, claims


def find(prop, tier, name):
    mod, claims = load_claims(prop, tier)
    for c in claims:
        if c.name == name:
            return mod, c
    raise KeyError(name)


def cmd_list(prop, tier):
    mod, claims = load_claims(prop, tier)
    out = [{"name": c.name, "timeout": c.timeout, "bounds": c.bounds, "group": c.group, "inductive": c.inductive} for c in claims if not c.probe_only]
    meta = {"claims": out, "assumptions": list(getattr(mod, "ASSUMPTIONS", [])), "outside": list(getattr(mod, "OUTSIDE", []))}
    print(json.dumps(meta))


def known_pre(mod, c, known):
    """extra preconditions: exclude exactly the inputs characterised by known findings for this claim group"""
    extra = []
    for k in known:
        if k.get("claim") != c.group or not k.get("match_fn"):
            continue
        fn = getattr(mod, k["match_fn"])
        import inspect

        names = list(inspect.signature(fn).parameters)
        src = "def _neg(%s):\n    return not _m(%s)\n" % (", ".join(names), ", ".join(names))
        ns = {"_m": fn}
        exec(src, ns)
        extra.append(ns["_neg"])
    return extra


def cmd_analyze(prop, tier, name, out, known_json):
    from vf import engine, ext

    mod, c = find(prop, tier, name)
    known = json.loads(known_json) if known_json else []
    ext.install()
    found = ext.discover_state()
    res = {"name": name, "group": c.group, "bounds": c.bounds}
    try:
        main = engine.analyze(c, twin=False, extra_pre=known_pre(mod, c, known))
        res.update(main)
        res["functions_encoded"] = sorted(ext.ENCODED)
        if main["status"] in ("CONFIRMED",):
            tw = engine.analyze(c, twin=True, extra_pre=known_pre(mod, c, known))
            res["twin"] = {"status": tw["status"], "sample": tw["cex"], "paths": tw["paths"], "messages": tw["messages"][:1]}
        res["state_reset"] = found
        res["assumptions"] = list(ext.ASSUMPTIONS)
    except BaseException as e:  # noqa - a crash of the engine is a harness error, never a verdict
        res["status"] = "ERROR"
        res["error"] = "".join(traceback.format_exception(type(e), e, e.__traceback__))[-4000:]
    with open(out, "w") as f:
        json.dump(res, f)


def cmd_replay(prop, tier, name, argsfile):
    """Run the claim body concretely against the real code.  Exit 0 = holds, 1 = violated, 3 = outside the claim."""
    from vf import engine
    from vf.claim import Vacuous

    mod, c = find(prop, tier, name)
    with open(argsfile) as f:
        data = json.load(f)
    args = {k: engine.unjson(v) for k, v in data["args"].items()}
    c.install_params()
    try:
        if not c.check_pre(args):
            print("REPLAY outside: precondition false")
            sys.exit(3)
        r = c.fn(**args)
    except Vacuous:
        print("REPLAY outside: assume false")
        sys.exit(3)
    except c.raises as e:
        print("REPLAY holds (declared exception %s)" % type(e).__name__)
        sys.exit(0)
    except Exception as e:
        print("REPLAY violated: %s: %s" % (type(e).__name__, e))
        traceback.print_exc(limit=6, file=sys.stdout)
        sys.exit(1)
    if r:
        print("REPLAY holds")
        sys.exit(0)
    print("REPLAY violated: claim returned %r" % (r,))
    sys.exit(1)


def main(argv):
    cmd = argv[0]
    if cmd == "list":
        cmd_list(argv[1], argv[2])
    elif cmd == "analyze":
        cmd_analyze(argv[1], argv[2], argv[3], argv[4], argv[5] if len(argv) > 5 else "")
    elif cmd == "replay":
        cmd_replay(argv[1], argv[2], argv[3], argv[4])
    else:
        raise SystemExit("unknown command")


if __name__ == "__main__":
    main(sys.argv[1:])
